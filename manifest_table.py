# Edited as checks come online; every property is either in CHECKS (add) or NOT_APPLICABLE.
add("C20", "exploration",
    "exhaustive enumeration of all net-value series over a 6-value alphabet up to length 5 (quick) / 7 (thorough), brute-force reference",
    "Every metric function and performance_metrics() is evaluated on every series of the bounded alphabet (x3 scales, x3 sampling intervals, all benchmark pairs of short length) and compared with a pure-Python brute-force definition; complete over the stated finite space, says nothing beyond it.",
    "Trusted: the brute-force definitions in mc/checks/c20.py; float tolerance 1e-9 (1e-7 after exponentiation); undefined cases (zero variance) are counted and not judged.",
    "DESIGN.md §5 C20")

_PENDING = "check not built yet in this round (planned: bounded exhaustive exploration, see DESIGN.md §5); listed here until its check is registered"
for _i in range(1, 21):
    _p = f"C{_i:02d}"
    if _p not in CHECKS:
        NOT_APPLICABLE[_p] = _PENDING
