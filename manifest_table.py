# Edited as checks come online; every property is either in CHECKS (add) or NOT_APPLICABLE.
add("C20", "exploration",
    "exhaustive enumeration of all net-value series over a 6-value alphabet up to length 5 (quick) / 7 (thorough), brute-force reference",
    "Every metric function and performance_metrics() is evaluated on every series of the bounded alphabet (x3 scales, x3 sampling intervals, all benchmark pairs of short length) and compared with a pure-Python brute-force definition; complete over the stated finite space, says nothing beyond it.",
    "Trusted: the brute-force definitions in mc/checks/c20.py; float tolerance 1e-9 (1e-7 after exponentiation); undefined cases (zero variance) are counted and not judged.",
    "DESIGN.md §5 C20")

add("C06", "exploration",
    "exhaustive enumeration of the whole tick domain (1,774,545 ticks) with integer / 400-bit fixed-point oracles",
    "get_sqrt_ratio_at_tick is compared with the closed form on every tick, strict monotonicity and boundary constants are checked on every tick, and sqrt_price_x96_to_tick is evaluated on 7 inputs per tick (on, just below, just above, quartiles, just below the next boundary) with the expected floor decided by integer comparison; price<->tick helpers and nearest_usable_tick run over all decimals pairs/orientations/spacings on a boundary-rich subset (quick) or every tick (thorough). Complete for the two core conversions; the helper grid is complete in the thorough tier.",
    "Trusted: the 400-bit fixed-point closed form (cross-checked per chunk against an independent power), Python integers. The 35-digit Decimal context of the library is left untouched.",
    "DESIGN.md §5 C06")

add("C07", "exploration",
    "exhaustive enumeration of a boundary-rich grid (tick pairs x prices on/next to/between bounds x decimals x amounts) against exact Fraction closed forms",
    "Every grid point is evaluated on the real get_liquidity / get_amounts / V3CoreLib.new_position / close_position and, for a sub-grid, through UniLpMarket.add_liquidity_by_tick / remove_liquidity in both quote orientations; no-overspend, maximality up to the stated integer slack, sidedness, monotonicity along the sorted price grid, proportionality and closed-form agreement are decided in exact rational arithmetic. Complete over the grid, not over the reals.",
    "Trusted: the exact closed forms in mc/checks/c07.py. Comparison tolerance 1e-30 relative for Decimal results (35-digit context).",
    "DESIGN.md §5 C07")

add("C18", "model_checking",
    "exhaustive enumeration of trigger specifications x bar grids, each run through the real Actuator loop and compared with the denotation",
    "Every trigger kind with every parameter placement of the alphabet (times before/on/between/after bars, empty/one-bar/straddling/overlapping ranges, periods x delays x immediate, all pairs of periods incl. coinciding ones, all ordered pairs of trigger kinds) is executed through Actuator.run on every bar grid (start 0/7, interval 1/2/5 min) and the set of bars on which the action ran, its kwargs, exactly-once per bar and retirement are compared with the denotation. Every explored trace is an implementation trace.",
    "Trusted: the denotation function in mc/checks/c18.py; periods/delays are multiples of the bar interval; the bar grid is the one observed in the run (checked by C05).",
    "DESIGN.md §5 C18")

add("C08", "model_checking",
    "exhaustive enumeration of tick paths x same-bar operations through the real Actuator loop, fee delta measured across market.update() against an exact interval-intersection model",
    "All 3-bar (thorough: 4-bar) close-tick paths over a 9-value alphabet placed on/next to the range bounds, all (previous close, close) pairs under every same-bar operation (swap, add to a far/overlapping/same range, partial remove, collect, add+remove) placed in before_bar, on_bar, a trigger or the previous after_bar, position opened in bar 0/1/2, small and large pool liquidity, float64 and int64 ticks, are executed by Actuator.run; the pending-fee delta across the real update() is compared with volume x rate x |path ∩ range|/|path| x own/(pool+own) in exact Fractions.",
    "Trusted: the interval-intersection reference and the raw input frame built by the harness (the market's own copy is not consulted). Bar 0 is only bounded; with several positions only the 'never more' bound is demanded.",
    "DESIGN.md §5 C08")

add("C03", "model_checking",
    "explicit-state DFS over operation sequences (operation x argument class) on the real market objects at a frozen bar, net value by an independent exact reference valuation",
    "Every world of the catalogue is explored from its seeded portfolios: all sequences within the depth/deviation bound of real public operations with argument classes {0, dust, part, all, all+, over, huge} resolved against the current state; on every transition, accepted or rejected, the change of the reference net value is bounded by the wallet dust, conserving operations conserve, swaps lose exactly the reported fee, and no holding is negative. Every explored trace is an implementation trace; dedup on the canonical raw state is budget-aware.",
    "Trusted: the reference valuation (mc/worlds/adapters_*.py ref_value), generic snapshot/restore of vars(market) (violations are re-executed from a fresh world by --replay). Negative amounts and caller-chosen swap prices are outside the alphabet.",
    "DESIGN.md §5 C03")
add("C04", "model_checking",
    "explicit-state DFS over operation sequences; fault enumeration over rejection causes; state-equality oracle plus one-step look-ahead differential",
    "Same exploration as C03 with argument classes built to hit each precondition separately; on every rejected call the raw state (wallet, every market's position containers, visible order book, action log) must equal the state before, exactly; multi-step helpers are judged per completed constituent (spied on the instance and re-executed from the pre-state); after each rejection every default operation must behave exactly as it does without the rejection (exposes hidden state such as caches). The evidence lists every (operation, cause) pair reached.",
    "Trusted: raw-state observers of the adapters; generic snapshot/restore. open_deposit_mint / burn_and_withdraw are judged as single transactions.",
    "DESIGN.md §5 C04")

add("C10", "model_checking",
    "explicit-state DFS over supply/withdraw/borrow/repay and bar advances on the real AaveV3Market, lock-step against an exact ledger of scaled lots, plus split/merge/commutation differentials from every reached state",
    "All event sequences within the depth/deviation bound over three tokens whose liquidity and borrow indices follow different non-decreasing paths; after every accepted event position amounts, open entries, wallet and the action record are compared with a Fraction ledger (balance = sum amount_j x index_now/index_j); from every reached state supply/withdraw/repay split-vs-merged and interposed-operation differentials are executed on snapshots.",
    "Trusted: the ledger model in mc/checks/c10.py and the harness's own index frames. Tolerance 1e-18 absolute as stated by the property.",
    "DESIGN.md §5 C10")
add("C13", "model_checking",
    "explicit-state DFS over interleavings of view reads (which fill the memoised caches) and writes on the real AaveV3Market; dedup key includes the cache fill pattern; all views compared with a from-scratch recomputation on a snapshot",
    "Reads of single derived views / all views are events of the alphabet; writes are supply, withdraw, borrow, repay (cash / collateral), change_collateral (each also in a rejected variant), bar advance and a liquidating bar, from four seeded portfolios; after every event every view (listed supplies/borrows with flags, value dicts, totals, health factor, LTVs, APYs, market balance) is recomputed from raw positions, the harness's index frames, prices and risk table.",
    "Trusted: the recomputation in mc/worlds/aave.py (ref_positions / ref_risk) and mc/checks/c13.py; snapshot/restore so that the oracle does not perturb cache state.",
    "DESIGN.md §5 C13")

add("C11", "model_checking",
    "exhaustive product portfolio x price vector x probe, probes placed relative to the analytic accept/reject frontier (exact Fractions), chained to depth 2 on the real AaveV3Market",
    "Portfolios (8 supply sets x 6 debt sets, built by real supply/borrow calls) x 5 price vectors; every probe (borrow / withdraw at frontier x {0.999, 1-1e-6, 1+1e-6, 1.001, 1.5}, borrow(None), withdraw(get_max_withdraw_amount), collateral flag on/off, repay with cash / collateral, supply) is executed, then every probe again after every accepted probe. Judged: accept inside / reject beyond the limit with 0.1% margin, HF >= 1 and debt <= collateral x LTV after every accepted operation, helper maxima accepted and <= supply, reported HF / max-LTV / LT / LTV equal their definitions, rejected probes change nothing.",
    "Trusted: the frontier formulas in mc/checks/c11.py and ref_risk in mc/worlds/aave.py. Frontiers worth < 1e-9 USD are treated as 'no room'. Helpers are judged for accounts with collateral only, as the property says.",
    "DESIGN.md §5 C11")

add("C12", "model_checking",
    "exhaustive product portfolio x shock x target health factor (price multiplier solved exactly) x in-bar user activity, liquidation run by the real Market.update(), every _do_liquidate step bracketed by raw-state snapshots and judged against the step rule in exact Fractions",
    "6 collateral sets (1-3 tokens, distinct LT/bonus/indices) x 6 debt sets (1-2 tokens incl. a volatile debt) x non-collateral extra x {collateral-down, debt-up} x 9 target health factors (1.3, 1+-1e-9, 0.97, 0.95+, 0.949, 0.6, 0.2, 0.03) x user activity in the shocked bar, plus a following bar. Judged per step: liquidation iff HF < 1, repaid <= close factor x debt, seized value = repaid value x (1 + collateral bonus) at the collateral's own index, net value falls by exactly bonus x repaid value, only the two positions move, wallet untouched, nothing negative, LiquidationAction fields = state deltas, no debt visited twice, loop ends with HF >= 1 / no collateral / all debts visited, update() never raises.",
    "Trusted: ref_positions / ref_risk in mc/worlds/aave.py. Pair selection order is not judged; HF within 1e-12 of 0.95 is not judged for the close factor; zero-collateral-value accounts are expected not to be liquidated.",
    "DESIGN.md §5 C12")

add("C14", "model_checking",
    "explicit-state DFS over vault event sequences (mint / withdraw placed relative to the analytic 1.5x frontier, deposit, burn, close, LP in/out, bar advance running the real update()) on the real SqueethMarket + oSQTH pool, over 8 price / norm-factor scenarios and 6 seeded states; reference in Fractions with a 60-digit geometric TWAP",
    "After every accepted mint / withdrawal / LP withdrawal the touched vault, if it has debt, must hold effective collateral (ETH + LP at the index price) >= 1.5 x debt at the 7-bar TWAP and >= 0.5 ETH; accepted operations move exactly the stated ETH / oSQTH between wallet and vault; at every bar end each vault is liquidated iff below 1.5x and the resulting collateral / short equal the rule (LP redeemed first with 2% bounty, then half or all of the debt x TWAP(oSQTH) x 1.1 capped at the collateral); vault amounts stay non-negative; the wallet only receives the oSQTH excess of a redeemed LP; update() never raises; get_collat_ratio_and_liq_price equals its definition.",
    "Trusted: SqueethAdapter reference functions (mc/worlds/squeeth.py), the closed-form LP amounts (tied to the library's TickMath by C06/C07). Float TWAP in the implementation: 1e-9 relative tolerance, verdicts within 1e-7 of the frontier are not judged. Rejected operations are judged by C04, not here.",
    "DESIGN.md §5 C14")

add("C15", "model_checking",
    "explicit-state DFS over buy / sell / refresh / deposit / withdraw sequences within one bar on the real DeribitOptionMarket over a family of order books, in lock-step with an order-book reference model in exact Fractions",
    "43 books (quick; all size combinations in the thorough tier) with 0-3 levels per side, sizes {1,2,5}, next to and exactly on the mark; orders of 1, 2, 3, 6, 2.4, 2.5, 0.4, 14 contracts as market orders, limit orders at level 0 / 1 (token or USD price) and mark caps 1.011 / 1.5 / 3, on two instruments plus an unknown one. After every event: returned fills = best-first fills at displayed sizes of the amount rounded to the contract step, fee = min(0.03% n, 12.5% premium) rounded to 1e-6, cash, position amounts and size-weighted average prices, the visible book (shrinks until refresh, restored by refresh), equity = cash + amount x mark all equal the model; unfillable / over-held / unaffordable orders must be rejected and exactly fillable ones accepted.",
    "Trusted: the order-book model in mc/checks/c15.py. Books are sorted best-first as Deribit delivers them and satisfy bids <= mark <= asks.",
    "DESIGN.md §5 C15")

add("C16", "model_checking",
    "exhaustive product of option kind x underlying at settlement x mark at settlement x expiry placement on the bar grid x holding history x co-market, each case one real Actuator.run; settlement bar, exactly-once removal, payoff and fee recomputed in exact Fractions",
    "CALL / PUT; underlying at the settlement bar K-d, K-eps, K, K+eps (payoff below the fee), K+d; mark normal / tiny (12.5% cap binds) / instrument missing from the book; expiry before the first bar, on hour 0, on hour 2, between hours 2 and 3, after the data; holding 1, 3, or 5 bought and 2 sold before expiry; option market alone (hourly bars) or beside a minutely Uniswap market (241 bars) with trade attempts at every :00 and :30. Judged: exactly one ExpiredAction at the first open bar at or after expiry and none before, held on every earlier bar, cash delta at that bar = contracts x |S-K|/S - min(0.015% x contracts, 12.5% x option value) iff in the money and above the fee, DeliverAction fields, trades refused on closed bars and accepted on open ones.",
    "Trusted: the payoff formula in mc/checks/c16.py. Open bar = on the hour and present in the option data.",
    "DESIGN.md §5 C16")

add("C17", "model_checking",
    "exhaustive product of pool states x tokens x amounts x operation sequences on the real GmxMarket / GmxV2Market against the Vault / GlpManager rules in integer arithmetic (v1) and the deposit / withdrawal rules (v2)",
    "v1: price / AUM / supply variants x 3 tokens (18, 18 and 6 decimals) x USDG of the traded token far below / below / at / above / far above its target x amounts (tiny, a tenth of the gap, crossing the target, three targets): fee in [0, 85] bp and within 1 bp of Vault.getFeeBasisPoints, minted / redeemed amounts = the contract's floor formulas at the fee charged, wallet and holding bookkeeping, same-token round trips and all buy / sell sequences up to length 3 (4 thorough) closed by a full sale never return more than paid, over-redemption rejected, per-bar reward = interval x 60 x held / supply. v2: 4 pool shapes x 3 impact pools x 10 deposit shapes: GM minted = pool value per share with fee factors and impact capped by the impact pool, redeemed amounts, balance split, over-withdrawal rejected, round trips non-profitable whenever the capped positive impact does not exceed the fees.",
    "Trusted: the reference calculators in mc/worlds/gmx.py (integer Vault rule; v2 in floats, 1e-9). v2 round trips with protocol-paid positive impact above the fees are counted, not judged. One rounding step of the token is allowed on minted / redeemed amounts.",
    "DESIGN.md §5 C17")

add("C01", "model_checking",
    "actuator-driven exploration: every world (14 market mixes / quote configurations) run by the real Actuator.run under every script of the bound (seeded portfolio + 1-2 operations x bar x hook); every bar's recorded AccountStatus compared with a reference valuation from raw fields in exact arithmetic",
    "Worlds: pool quoted in token0 / token1, pool quoted in WETH with the account in USD, Aave (frozen and over a price / index path with a liquidating bar), Squeeth + oSQTH pool with LP positions lent to vaults (mark = index, mark != index, wallet without oSQTH entry), options alone and beside a minutely pool (open and closed bars), GLP, GM (two pool shapes), pool + Aave in one USD account with USDC != 1 USD. At every bar: asset_value = balances x prices, every market's net_value = value of its raw positions under that bar's data, net_value = wallet + markets converted by the market's quote-token price, a lent LP position counted once (in the vault, at the index price).",
    "Trusted: the adapters' ref_value functions (mc/worlds/*.py). Tolerances reproduce the implementation's own rounding: Aave 2e-4 absolute, float paths 1e-9 relative, pool math three smallest units per position and token.",
    "DESIGN.md §5 C01")

add("C05", "model_checking",
    "trace conformance through the real Actuator.run: instance-level wrappers on every market's set_market_status / update plus a tracing strategy give one global phase trace (with action-log and history lengths at every event) that is matched event by event against the loop specification, over market mixes x bar intervals x scripted operations in every hook",
    "8 market mixes (pool; pool + Aave; Aave over a liquidating path; Squeeth + pool; GLP; GM; options alone; options beside a minutely pool) x intervals 1min / 2min / 5min / 1h (resampling by the markets' own _resample) x one accepted or rejected operation in initialize / before_bar / a time trigger / on_bar / after_bar at bars 0, 1, last (thorough: all pairs). Judged: every bar of the arithmetically computed bar grid exactly once, ascending; per bar status(all) -> before_bar -> due triggers -> on_bar -> at most one further status refresh per market -> update(all) once -> after_bar -> history row -> notify of exactly the actions recorded in this bar, each once, in order; status refreshes never change positions; every action stamped with its bar; account_status_df has one row per bar with that bar's timestamp and token prices.",
    "Trusted: the loop specification and the bar-grid arithmetic in mc/checks/c05.py. Actions made in finalize() are outside the bars.",
    "DESIGN.md §5 C05")

add("C02", "model_checking",
    "differential exploration through the real Actuator.run: base history vs history with a varied future (cut k x variant x strategy x interval x world), fresh objects each, prefix rows / actions / snapshot digests compared value for value; plus input-frame digests before vs after and a re-run on the same frames",
    "9 worlds (pool in both orientations, Aave over a liquidating path, pool + Aave, Squeeth + pool, options alone, options beside a minutely pool, GLP, GM) x intervals 1min / 2min / 5min x strategies (idle, seeded portfolio, trading every bar, data-dependent) x every cut k x future variants (values shocked incl. liquidation / index / book changes, future rows reversed in time, history truncated right after the cut). The variant is applied to the RAW frames so the repository's preparation code (statistic columns with shift(1), price extraction, resampling) is inside the comparison. Judged: account_status_df rows 0..k, every action stamped <= bar k, every snapshot digest (taken at hand-over) for bars <= k identical; every input frame (incl. order-book lists) unchanged by a run; a second run on the same frames with fresh Actuator / Broker / markets reproduces history and actions exactly.",
    "Trusted: the frame digests (mc/worlds/base.py) and the variant generator. Variants whose derived price frame has no price for a prefix bar (a one-hour option history at midnight) are not comparable and skipped (counted).",
    "DESIGN.md §5 C02")

add("C09", "model_checking",
    "product exploration: a pool quoted in token0 and its mirror quoted in token1 driven in lock-step by the same operation sequences in base / quote terms on the real UniLpMarket objects; explicit-state DFS with snapshot / restore of both worlds, agreement checked after every step",
    "8 pool states (price below / one tick outside / one tick inside / inside on and off the spacing grid / above the reference range) x decimals (6,18) (thorough: and (8,18)) x all sequences of <= 3 operations (1 boundary / oversized argument; thorough: 2) of a 70-label alphabet: add by tick / by price / by value on four ranges (in, below, above, wide), remove half / all with and without collect, collect (also with per-token limits), deposits at a price exactly on a range end (given as a tick), buy, sell, swap both ways, even_rebalance, remove_all, estimate_amount, estimate_liquidity, get_position_status, get_market_balance, price_to_tick, tick_to_price, and a bar advance with fee accrual. After every step: same accept / reject outcome, returned base / quote amounts, liquidity and fees, wallets, positions (liquidity, pending base / quote) and market value agree to 1e-12 relative; estimate-based helpers and everything downstream of add_liquidity_by_value to 1e-3.",
    "Trusted: the mirror construction in mc/checks/c09.py (ticks negated, range bounds swapped and negated, per-token volumes swapped). Prices exactly on a range bound are excluded (rounding noise decides the side in either orientation).",
    "DESIGN.md §5 C09")

add("C19", "model_checking",
    "exhaustive enumeration of schedules of the real BacktestManager.run: in-process path and pool path under a controlled pool substituted for multiprocessing.Pool (one real forked child per worker, each task's arguments un-pickled separately, every task -> worker assignment enumerated), results compared with solo runs; the real Pool is run as a conformance check",
    "3 market mixes (one pool; two pools in one configuration; an hourly option market whose order book lives in the shared data frame) x every ordered selection of <= 3 of 4 strategies (opens and keeps positions; idle; trades and turns liquidity over every bar; period trigger) plus repeated strategies and a 9-strategy batch x threads 1 (in-process) and 2 / 3 (pool) x every partition of the submitted units among at most w identical workers. Each strategy writes its account history rows, actions, wallet and final positions in finalize(); each must equal the same strategy run alone with fresh objects. Map-style submissions are modelled with the pool's own chunking (a chunk is pickled as one unit). Three (thorough: five) runs under the real multiprocessing.Pool in a fresh interpreter check the substitute.",
    "Trusted: the controlled pool in mc/checks/c19.py (partial-order reduction: workers share nothing after the fork, so only the assignment and the order within a worker are observable). demeter.core.backtest.Pool / set_start_method / cpu_count are rebound in the harness process only.",
    "DESIGN.md §5 C19")

_PENDING = "check not built yet in this round (planned: bounded exhaustive exploration, see DESIGN.md §5); listed here until its check is registered"
for _i in range(1, 21):
    _p = f"C{_i:02d}"
    if _p not in CHECKS:
        NOT_APPLICABLE[_p] = _PENDING
