#!/venv/bin/python
"""Regenerates MANIFEST.json from the table below (keeps it schema-valid by construction)."""
import json, os

HERE = os.path.dirname(os.path.abspath(__file__))
BASELINE = "cd /repo && /venv/bin/python -m pytest -ra -q -p no:cacheprovider --timeout=900 --continue-on-collection-errors"

# id -> (category, technique, text, note, design_ref)
CHECKS = {}

def add(pid, cat, technique, text, note, ref):
    CHECKS[pid] = (cat, technique, text, note, ref)

NOT_APPLICABLE = {}

exec(open(os.path.join(HERE, "manifest_table.py")).read())

def build():
    checks = []
    for pid in sorted(CHECKS):
        cat, tech, text, note, ref = CHECKS[pid]
        checks.append({
            "property_id": pid,
            "quick_cmd": f"./check {pid} --tier quick",
            "thorough_cmd": f"./check {pid} --tier thorough",
            "evidence_file": f"/verif/evidence/{pid}.json",
            "replay_cmd_template": f"./check {pid} --replay {{path}}",
            "engine": "mc",
            "level_claimed": {"category": cat, "text": text, "design_ref": ref},
            "level_note": note,
            "technique": tech,
        })
    m = {
        "version": 1,
        "setup_cmd": "/venv/bin/python -m compileall -q mc >/dev/null; chmod +x check; mkdir -p evidence replays",
        "hooks": {
            "guard": "DEMETER_VERIF",
            "enable": "no source hooks: observation points are instance-level wrappers installed by the harness process; checks import /repo's working tree through the editable install of /venv",
            "baseline_off_cmd": BASELINE,
            "source_commits": [],
            "add_only": True,
        },
        "engines": [{
            "name": "mc",
            "path": "/verif/mc",
            "serves_properties": sorted(CHECKS),
            "kind_free_text": "hand-written explicit-state / bounded exhaustive explorer driving the real demeter objects, "
                              "lock-step Python reference models in exact arithmetic (mc/ref), evidence + known-findings + replay (mc/engine)",
        }],
        "checks": checks,
        "notes": "All checks: `./check <id> --tier quick|thorough`; replay a violation with `./check <id> --replay <file>`. "
                 "VERIF_SEED only rotates enumeration order and which explored cases are written as samples. "
                 "known_findings.json lists recorded genuine defects (none suppresses anything unless under 'findings').",
        "not_applicable": [{"property_id": k, "reason": v} for k, v in sorted(NOT_APPLICABLE.items())],
    }
    with open(os.path.join(HERE, "MANIFEST.json"), "w") as f:
        json.dump(m, f, indent=1)
    print("MANIFEST.json:", len(checks), "checks;", len(NOT_APPLICABLE), "not applicable")

build()
