#!/bin/bash
# runall.sh <quick|thorough> [ids...]: run the registered checks of a tier one after the other and print one line each (development aid).
cd "$(dirname "$0")" || exit 2
tier=${1:-quick}; shift
ids=${@:-$(seq -f 'C%02g' 1 20)}
rc=0
for id in $ids; do
  s=$(date +%s)
  out=$(./check $id --tier $tier 2>&1); e=$?
  echo "$id exit=$e $(( $(date +%s)-s ))s $(echo "$out" | grep -E '^(VIOLATION|KNOWN-FINDING|HARNESS-ERROR)' | head -3 | tr '\n' ' ') $(echo "$out" | tail -1 | cut -c1-160)"
  [ $e -ne 0 ] && rc=1
done
exit $rc
