"""C12 — Aave liquidation: only below HF 1, close factor, exact bonus at the collateral's own index, wallet untouched.

Exhaustive product: portfolio (1-3 collaterals x 1-2 debts, built by REAL calls in bar 0, per-token indices all
different) x shock (which prices move) x target health factor of bar 1 (the price multiplier is SOLVED in exact
Fractions so the bar-1 health factor lands on 1.3, 1+1e-9, 1-1e-9, 0.97, 0.95+, 0.949, 0.6, 0.2) x optional user
operation inside the shocked bar.  The real Market.update() runs the liquidation; every _do_liquidate step is
bracketed by raw-state snapshots (instance-level wrapper) and judged against the step rule."""
from __future__ import annotations

import itertools
import json
from decimal import Decimal
from fractions import Fraction

from mc.engine.core import Part, Run, chunks, pmap
from mc.worlds import kit
from mc.worlds.kit import F

LEVEL = "model_checking"
REL = Fraction(1, 10**22)

COLLATERALS = {
    "weth": [("WETH", "2")],
    "wbtc": [("WBTC", "0.1")],  # LT 0.93, bonus 10 %: a 50 % liquidation does not restore HF
    "weth+usdc": [("WETH", "2"), ("USDC", "1500")],
    "weth+aave": [("WETH", "1"), ("AAVE", "40")],
    "usdc+weth-small": [("USDC", "4000"), ("WETH", "0.2")],
    "three": [("WETH", "1"), ("WBTC", "0.07"), ("AAVE", "10")],
}
DEBTS = {
    "usdc": [("USDC", "0.9")],
    "dai": [("DAI", "0.9")],
    "usdc+dai": [("USDC", "0.5"), ("DAI", "0.8")],
    "dai+usdc-small": [("DAI", "0.85"), ("USDC", "0.3")],
    "weth": [("WETH", "0.9")],
    "usdt+usdc": [("USDT", "0.4"), ("USDC", "0.7")],
}
# the big one is worth more than any collateral set: "the biggest collateral" must still be chosen among COLLATERAL supplies
EXTRA_N = {"none": [], "usdtN": [("USDT", "700")], "usdtN-big": [("USDT", "7900")]}
TARGETS = ["1.3", "1.000000001", "0.999999999", "0.97", "0.9500001", "0.949", "0.6", "0.2", "0.03"]
QUICK_TARGETS = ["1.3", "1.000000001", "0.999999999", "0.97", "0.949", "0.6", "0.03"]
USER_OPS = ["none", "read-views", "supply-more", "repay-part", "refused-withdraw"]


def dec(fr: Fraction) -> Decimal:
    return Decimal(fr.numerator) / Decimal(fr.denominator)


def build_special(case):
    """Health factor EXACTLY on a threshold: unit indices and round numbers, so that collateral x LT / debt is exact in Decimal arithmetic.
    10 WETH (LT 0.825) against 13,200 USDC: HF = 1 at WETH = 1600, just below 1 at 1599.99, just above at 1600.01."""
    from demeter._typing import USD
    from mc.worlds import aave
    from mc.worlds.kit import Ctx

    frames = aave.make_data(4)
    for t in ("WETH", "USDC"):
        frames[t] = frames[t].copy()
        frames[t]["liquidity_index"] = Decimal(1)
        frames[t]["variable_borrow_index"] = Decimal(1)
    mult = {"exact-1": "0.8", "just-below-1": "0.799995", "just-above-1": "0.800005"}[case["special"]]
    prices = aave.price_frame(4, {"WETH": [1, mult, mult, mult]})
    m = aave.make_market(frames)
    ad = aave.AaveAdapter(m, frames)
    ctx = Ctx("aave", prices, USD, [ad], [(aave.WETH, 10), (aave.USDC, 0)], prices.index)
    ctx.begin_bar(0)
    m.supply(aave.WETH, Decimal(10), True)
    m.borrow(aave.USDC, Decimal(13200))
    ctx.tok = {t.name: t for t in aave.TOKENS}
    ctx.advance()
    return ctx


def build_case(case):
    """Returns ctx positioned in bar 1 (shocked), or None when the target HF is unreachable by moving the chosen prices."""
    from demeter._typing import USD
    from mc.worlds import aave
    from mc.worlds.kit import Ctx

    if case.get("special"):
        return build_special(case)

    frames = aave.make_data(4)
    tok = {t.name: t for t in aave.TOKENS}

    def fresh(prices):
        m = aave.make_market(frames)
        ad = aave.AaveAdapter(m, frames)
        ctx = Ctx("aave", prices, USD, [ad], [(aave.WETH, 10), (aave.USDC, 20000), (aave.DAI, 5000), (aave.USDT, 8000),
                                              (aave.AAVE, 80), (aave.WBTC, 1)], prices.index)
        ctx.begin_bar(0)
        for sym, amt in COLLATERALS[case["coll"]]:
            m.supply(tok[sym], Decimal(amt), True)
        for sym, amt in EXTRA_N[case["extra"]]:
            m.supply(tok[sym], Decimal(amt), False)
        for sym, share in DEBTS[case["debt"]]:
            r = ad.ref_risk()
            room = r["ltv_sum"] - r["debt"]
            m.borrow(tok[sym], dec(room * Fraction(share) / F(ctx.price_row()[sym])))
        ctx.tok = tok
        return ctx

    ctx = fresh(aave.price_frame(4))
    ad = ctx.adapters[0]
    m = ad.market
    # positions valued with BAR-1 indices and base prices
    ts1 = ctx.index[1]
    moved = []
    fixed_lt = Fraction(0)
    moved_lt = Fraction(0)
    debt_fixed = Fraction(0)
    debt_moved = Fraction(0)
    volatile = {"WETH", "WBTC", "AAVE"}
    for t, s in m._supplies.items():
        if not s.collateral:
            continue
        li = F(frames[t.name].loc[ts1]["liquidity_index"])
        v = F(s.base_amount) * li * F(aave.PRICES[t.name]) * aave.risk(t.name)["lt"]
        if case["shock"] == "collateral-down" and t.name in volatile:
            moved_lt += v
        else:
            fixed_lt += v
    for t, b in m._borrows.items():
        bi = F(frames[t.name].loc[ts1]["variable_borrow_index"])
        v = F(b.base_amount) * bi * F(aave.PRICES[t.name])
        if case["shock"] == "debt-up" and t.name in volatile:
            debt_moved += v
        elif case["shock"] == "collateral-down" and t.name in volatile:
            debt_moved += v  # a volatile debt token moves with its price too
        else:
            debt_fixed += v
    target = Fraction(case["target"])
    if case["shock"] == "collateral-down":
        # (moved_lt*x + fixed_lt) / (debt_fixed + debt_moved*x) = target
        den = moved_lt - target * debt_moved
        if den == 0:
            return None
        x = (target * debt_fixed - fixed_lt) / den
    else:
        if debt_moved == 0:
            return None
        x = ((fixed_lt + moved_lt) / target - debt_fixed) / debt_moved
    if x <= Fraction(1, 1000) or x > 1000:
        return None
    xs = str(dec(x))
    mult = {}
    for sym in volatile:
        if case["shock"] == "collateral-down" or sym in [t for t, _ in DEBTS[case["debt"]]]:
            mult[sym] = [1, xs, xs, xs]
    ctx = fresh(aave.price_frame(4, mult))
    ctx.advance()  # end of bar 0 (healthy by construction), begin bar 1 with the shocked prices
    return ctx


def bracket_liquidation(ctx):
    """Wrap _do_liquidate on the INSTANCE: record raw state, reference positions and risk before/after each step."""
    ad = ctx.adapters[0]
    m = ad.market
    steps = []
    real = m._do_liquidate

    def wrapped(collateral_token, delt_token, delt_value_to_cover):
        entry = {"c": collateral_token.name, "d": delt_token.name, "pre": ad.ref_positions(), "pre_risk": ad.ref_risk(),
                 "n_actions": len(ctx.actions), "raised": None}
        steps.append(entry)
        try:
            return real(collateral_token, delt_token, delt_value_to_cover)
        except BaseException as e:  # noqa: BLE001
            entry["raised"] = repr(e)
            raise
        finally:
            entry["post"] = ad.ref_positions()
            entry["post_risk"] = ad.ref_risk()
            entry["actions"] = list(ctx.actions[entry["n_actions"]:])
    m._do_liquidate = wrapped
    return steps


def judge(part, case, ctx):
    from mc.worlds import aave

    ad = ctx.adapters[0]
    m = ad.market
    tok = ctx.tok
    row = ctx.price_row()
    # optional user activity inside the shocked bar (fills caches, changes positions)
    uop = case["user"]
    try:
        if uop == "read-views":
            _ = (m.supplies, m.borrows, m.health_factor, m.collateral_value, m.get_market_balance())
        elif uop == "supply-more":
            m.supply(tok["USDC"], Decimal(37), True) if tok["USDC"] not in m._supplies or m._supplies[tok["USDC"]].collateral else None
        elif uop == "refused-withdraw":
            # the strategy asks for (nearly) all of its biggest collateral back; with debt outstanding that is refused - and must leave no trace at bar end
            big = max((t for t, sp in m._supplies.items() if sp.collateral), key=lambda t: F(m.get_supply(t).amount) * F(row[t.name]), default=None)
            if big is not None:
                try:
                    m.withdraw(big, m.get_supply(big).amount * Decimal("0.97"))
                    part.count("refused_withdraw_was_accepted")
                except kit.REJECTIONS:
                    part.count("refused_withdraws")
        elif uop == "repay-part":
            d = next(iter(m._borrows))
            m.repay(d, m.get_borrow(d).amount / 10)
    except kit.REJECTIONS:
        pass
    wallet0 = dict(ctx.wallet())
    risk0 = ad.ref_risk()
    sup0, bor0 = ad.ref_positions()
    steps = bracket_liquidation(ctx)
    n0 = len(ctx.actions)
    part.count("bars_judged")
    try:
        ctx.end_bar()
    except BaseException as e:  # noqa: BLE001
        part.violation(f"C12|update|exception|{type(e).__name__}", "Market.update() raised during liquidation", case, {"error": repr(e)[:200]})
        return
    finally:
        try:
            del m._do_liquidate
        except AttributeError:
            pass
    acts = [a for a in ctx.actions[n0:] if type(a).__name__ == "LiquidationAction"]
    hf0 = risk0["hf"]
    part.count(f"hf_class.{case['target']}")
    if case.get("special") == "exact-1" and not case.get("second_bar") and hf0 != 1:
        raise RuntimeError(f"harness: the exact-1 case does not produce a health factor of exactly 1 ({hf0})")
    # ---- iff --------------------------------------------------------------------------------------------------
    if hf0 is not None and hf0 >= 1:
        if steps or acts:
            part.violation("C12|iff|liquidated-at-hf>=1", "a position with health factor >= 1 at bar end was liquidated", case,
                           {"hf": float(hf0), "steps": len(steps)})
        part.count("healthy_bars")
        return
    if hf0 is None:
        if steps:
            part.violation("C12|iff|liquidated-without-debt", "liquidation without debt", case)
        return
    can_seize = risk0["collateral"] > 0
    if can_seize and not acts:
        part.violation("C12|iff|not-liquidated-below-1", "health factor below 1 at bar end but no liquidation happened", case,
                       {"hf": float(hf0), "steps_raised": [s["raised"] for s in steps]})
        return
    if not can_seize:
        return
    part.count("liquidating_bars")
    part.count("liquidation_steps", len(steps))
    if wallet0 != ctx.wallet():
        part.violation("C12|wallet|touched", "liquidation changed the wallet", case, {"before": wallet0, "after": ctx.wallet()})
    visited = []
    for i, s in enumerate(steps):
        c, d = s["c"], s["d"]
        visited.append(d)
        if s["raised"]:
            if "Assertion" not in s["raised"]:
                part.violation("C12|step|exception", "a liquidation step raised", case, {"step": i, "error": s["raised"]})
            continue
        (sup_a, bor_a), (sup_b, bor_b) = s["pre"], s["post"]
        hf_pre = s["pre_risk"]["hf"]
        debt_pre = bor_a[d][0]
        repaid = debt_pre - (bor_b[d][0] if d in bor_b else 0)
        seized = sup_a[c][0] - (sup_b[c][0] if c in sup_b else 0)
        pc, pd_ = F(row[c]), F(row[d])
        bonus = aave.risk(c)["bonus"]
        tag = f"{'same' if c == d else 'cross'}"
        ctx_d = {"step": i, "collateral": c, "debt": d, "hf_before": float(hf_pre), "repaid": float(repaid), "seized": float(seized),
                 "debt_before": float(debt_pre), "collateral_before": float(sup_a[c][0])}
        # only these two positions move
        for k in set(sup_a) | set(sup_b):
            if k != c and sup_a.get(k) != sup_b.get(k):
                part.violation("C12|step|other-supply-changed", "a liquidation step changed a supply other than the seized collateral", case, ctx_d)
        for k in set(bor_a) | set(bor_b):
            if k != d and bor_a.get(k) != bor_b.get(k):
                part.violation("C12|step|other-debt-changed", "a liquidation step changed a debt other than the repaid one", case, ctx_d)
        if repaid < 0 or seized < 0 or (c in sup_b and sup_b[c][0] < 0) or (d in bor_b and bor_b[d][0] < 0):
            part.violation("C12|step|negative", "negative amount in a liquidation step", case, ctx_d)
        if abs(hf_pre - Fraction(95, 100)) > Fraction(1, 10**12):
            cf = Fraction(1, 2) if hf_pre > Fraction(95, 100) else Fraction(1)
            if repaid > cf * debt_pre * (1 + REL):
                part.violation(f"C12|step|close-factor-exceeded|cf={cf}", "a step repaid more than the close factor of the debt", case, ctx_d)
            part.count(f"close_factor.{cf}")
        # seized value = repaid value x (1 + bonus of the collateral), at the collateral's own index
        lhs = seized * pc
        rhs = repaid * pd_ * (1 + bonus)
        if abs(lhs - rhs) > REL * max(abs(lhs), abs(rhs), 1):
            part.violation(f"C12|step|bonus-equation|{tag}", "seized collateral value != repaid value x (1 + liquidation bonus of the collateral)", case,
                           dict(ctx_d, seized_value=float(lhs), expected=float(rhs), bonus=float(bonus)))
        all_taken = c not in sup_b
        part.count("capped_steps" if all_taken else "uncapped_steps")
        dnv = (s["post_risk"]["supply"] - s["post_risk"]["debt"]) - (s["pre_risk"]["supply"] - s["pre_risk"]["debt"])
        want = -bonus * repaid * pd_
        if abs(dnv - want) > REL * max(abs(want), 1):
            part.violation(f"C12|step|net-value-delta|{tag}", "a step did not lower net value by exactly bonus x repaid value", case,
                           dict(ctx_d, delta=float(dnv), expected=float(want)))
        la = [a for a in s["actions"] if type(a).__name__ == "LiquidationAction"]
        if len(la) != 1:
            part.violation("C12|action|count", "a completed liquidation step did not record exactly one LiquidationAction", case, ctx_d)
        else:
            a = la[0]
            left_c = sup_b[c][0] if c in sup_b else Fraction(0)
            left_d = bor_b[d][0] if d in bor_b else Fraction(0)
            for fld, got, want in (("collateral_used", a.collateral_used, seized), ("variable_delt_liquidated", a.variable_delt_liquidated, repaid),
                                   ("collateral_after", a.collateral_after, left_c), ("variable_debt_after", a.variable_debt_after, left_d),
                                   ("health_factor_before", a.health_factor_before, hf_pre),
                                   ("health_factor_after", a.health_factor_after, s["post_risk"]["hf"])):
                if want is None:
                    ok = Decimal(got) == Decimal("inf")
                else:
                    ok = abs(F(Decimal(got)) - want) <= Fraction(1, 10**18) * max(abs(want), 1)
                if not ok:
                    part.violation(f"C12|action|{fld}|{tag}", f"LiquidationAction.{fld} does not match the state change", case,
                                   dict(ctx_d, recorded=str(got), state=None if want is None else float(want)))
            if a.collateral_token != c or a.debt_token != d:
                part.violation("C12|action|tokens", "LiquidationAction names other tokens than the ones that moved", case, ctx_d)
    if len(set(visited)) != len(visited):
        part.violation("C12|loop|debt-visited-twice", "a debt token was liquidated twice in one bar", case, {"visited": visited})
    risk1 = ad.ref_risk()
    if risk1["hf"] is not None and risk1["hf"] < 1 and risk1["collateral"] > 0 and set(visited) != set(bor0):
        part.violation("C12|loop|stopped-early", "liquidation stopped with HF < 1, collateral left and a debt not yet visited", case,
                       {"hf_after": float(risk1["hf"]), "visited": visited, "debts": sorted(bor0)})
    if ad.negatives():
        part.violation("C12|state|negative", "negative position after liquidation", case, {"fields": ad.negatives()})
    part.sample({"case": case, "steps": [(s["c"], s["d"]) for s in steps], "hf_before": float(hf0),
                 "hf_after": None if risk1["hf"] is None else float(risk1["hf"])}, every=17)


def run_chunk(args):
    seed, cases = args
    part = Part(seed)
    for case in cases:
        try:
            ctx = build_case(case)
        except kit.REJECTIONS as e:
            part.violation("C12|build|exception", "building the portfolio raised", case, {"error": repr(e)[:200]})
            continue
        if ctx is None:
            part.count("unreachable_targets")
            continue
        part.count("cases")
        judge(part, case, ctx)
        # one more bar with the same prices: liquidates again iff still below 1 (judged by the same rule)
        if ctx.bar + 1 < len(ctx.index):
            ctx.begin_bar(ctx.bar + 1)
            judge(part, dict(case, user="none", second_bar=True), ctx)
    return part.result()


def all_cases(run):
    colls = list(COLLATERALS)
    debts = list(DEBTS)
    targets = TARGETS if run.thorough else QUICK_TARGETS
    users = USER_OPS if run.thorough else ["none", "read-views", "refused-withdraw"]
    extras = list(EXTRA_N) if run.thorough else ["none", "usdtN-big"]
    out = []
    for c, d, e, sh, t, u in itertools.product(colls, debts, extras, ("collateral-down", "debt-up"), targets, users):
        if d == "weth" and c in ("weth",):
            continue
        if sh == "debt-up" and d != "weth":
            continue
        out.append({"coll": c, "debt": d, "extra": e, "shock": sh, "target": t, "user": u})
    for sp in ("exact-1", "just-below-1", "just-above-1"):
        for u in ("none", "read-views"):
            out.append({"coll": "weth", "debt": "usdc", "extra": "none", "shock": "collateral-down", "target": sp, "user": u, "special": sp})
    return out


def main(run: Run):
    cases = run.rotate(all_cases(run))
    for r in pmap(run_chunk, [(run.seed, ch) for ch in chunks(cases, 64)]):
        run.merge(r)
    c = run.counters
    cov = {
        "states": c.get("bars_judged", 0), "transitions": c.get("liquidation_steps", 0) + c.get("bars_judged", 0),
        "traces_validated_against_impl": c.get("cases", 0), "evaluations": c.get("liquidation_steps", 0),
        "distinct_nontrivial": c.get("liquidating_bars", 0),
        "rule": "collateral set x debt set x non-collateral extra x shock kind x target HF x user activity in the shocked bar; the price multiplier is "
                "solved exactly so the bar-1 HF equals the target; a case counts as non-trivial when the bar liquidates",
        "healthy_bars": c.get("healthy_bars", 0), "liquidating_bars": c.get("liquidating_bars", 0),
        "capped_steps": c.get("capped_steps", 0), "uncapped_steps": c.get("uncapped_steps", 0),
        "exhaustive": True, "completed_bound": {"cases": len(cases), "bars_after_shock": 2},
    }
    return run.finish(cov, ["pair selection order is not judged", "HF within 1e-12 of 0.95 is not judged for the close factor",
                            "accounts whose collateral value is 0 are expected not to be liquidated",
                            "collateral tokens with liquidation threshold 0 are outside the alphabet"])


def replay(run: Run, path):
    data = json.load(open(path))
    case = dict(data["case"])
    second = case.pop("second_bar", False)
    part = Part()
    first_case = dict(case)
    ctx = build_case(first_case)
    judge(part, first_case, ctx)
    if second:
        part.violations.clear()
        ctx.begin_bar(ctx.bar + 1)
        judge(part, dict(case, second_bar=True), ctx)
    for sig, v in part.violations.items():
        print("reproduced:", sig, v[0], v[2])
    print("REPLAY", "violations" if part.violations else "clean")
    return 1 if part.violations else 0
