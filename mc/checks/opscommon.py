"""Shared driver for the operation-sequence checks (C03, C04): runs the explorer of worlds/kit.py over every
world of the catalogue in parallel partitions (world x root), with a pluggable transition oracle."""
from __future__ import annotations

import json

from mc.engine.core import Part, pmap
from mc.worlds import kit
from mc.worlds.base import frame_digest


def world_names():
    from mc.worlds import registry

    # the synthetic-index GM pool differs from the plain one in how it is VALUED only (C01's subject): its operations are those of gmx2(mild,small)
    return [k for k in registry.WORLDS.keys() if k != "gmx2(mild,small,synthetic-index)"]


def get_world(name):
    from mc.worlds import registry

    return registry.WORLDS[name]()


def run_partition(args):
    """One (world, root) partition. oracle_name selects the transition oracle module function."""
    seed, wname, root, depth, max_dev, oracle_mod, first = args
    import importlib

    mod = importlib.import_module(oracle_mod)
    world = get_world(wname)
    part = Part(seed)
    digests_before = {k: frame_digest(v) for k, v in world.frames.items()}
    oracle = mod.Oracle(part, world)
    stats = kit.explore(world.build, world.alphabet, depth + len(root), max_dev, oracle.on_transition,
                        on_state=oracle.on_state, part=part, roots=(tuple(root),), first=first)
    for k, v in world.frames.items():
        if frame_digest(v) != digests_before[k]:
            # the harness never writes to an input frame, so the library did (e.g. through list objects shared between a status row and the data):
            # whatever else was observed in this partition stands, and the modification itself is reported
            pid = oracle_mod.rsplit(".", 1)[-1].upper()
            part.violation(f"{pid}|input-frame-modified|{k}", "an operation wrote through to the market data frame it was given (the visible state and the input share objects)",
                           {"world": wname, "history": list(root)}, {"frame": k})
    oracle.finish()
    r = part.result()
    r["stats"] = stats
    r["world"] = wname
    r["causes"] = sorted(oracle.causes)
    return r


def run_all(run, oracle_mod, depth, max_dev, worlds=None):
    jobs = []
    import os
    if os.environ.get('VERIF_WORLDS'):
        worlds = os.environ['VERIF_WORLDS'].split(';')  # debugging aid only
    for w in worlds or world_names():
        world = get_world(w)
        for root in world.roots:
            ctx, _ = kit.replay_history(world.build, world.alphabet, root)
            labels = [o.label for o in world.alphabet(ctx)]
            n = (8 if len(labels) > 40 else 4) if len(labels) > 8 else 1  # partitions of the first level (wall time = the slowest partition)
            for i in range(n):
                jobs.append((run.seed, w, tuple(root), depth, max_dev, oracle_mod, frozenset(labels[i::n])))
    jobs = run.rotate(jobs)
    totals = {"states": 0, "transitions": 0, "accepted": 0, "rejected": 0, "complete": 0, "distinct_outcomes": 0, "max_depth": 0}
    per_world = {}
    causes = set()
    for r in pmap(run_partition, jobs):
        run.merge(r)
        st = r["stats"]
        for k in totals:
            if k == "max_depth":
                totals[k] = max(totals[k], st[k])
            else:
                totals[k] += st[k]
        pw = per_world.setdefault(r["world"], {"states": 0, "transitions": 0, "rejected": 0})
        pw["states"] += st["states"]
        pw["transitions"] += st["transitions"]
        pw["rejected"] += st["rejected"]
        causes |= set(tuple(c) for c in r["causes"])
    return totals, per_world, sorted(causes)


def confirm_by_replay(world, history, check):
    """Replay one history twice in fresh worlds; check(ctx, outcomes) -> signature or None must agree."""
    sigs = []
    for _ in range(2):
        ctx, outs = kit.replay_history(world.build, world.alphabet, history)
        sigs.append(check(ctx, outs))
    return sigs[0] == sigs[1], sigs[0]


def load_case(path):
    data = json.load(open(path))
    return data, data["case"]
