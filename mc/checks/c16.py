"""C16 — options settle once at expiry with intrinsic payoff net of the delivery fee; trades only on open bars.

Exhaustive product, every case run through the REAL Actuator.run bar loop: option kind x strike position x expiry
placement relative to the bar grid (before the first bar, on an hour bar, between hours, after the last bar) x
underlying at the settlement bar (K - d, K, K + eps with payoff < fee, K + d) x mark at settlement (normal, tiny so
that the 12.5 % cap binds, instrument missing from the book) x held amount (bought once / bought and partly sold)
x co-market (hourly option market alone, or beside a minutely Uniswap market) x scripted trade attempts at open and
closed bars."""
from __future__ import annotations

import itertools
import json
from datetime import timedelta
from decimal import ROUND_HALF_UP, Decimal
from fractions import Fraction

from mc.engine.core import Part, Run, chunks, pmap
from mc.worlds.kit import F

LEVEL = "model_checking"
HOURS = 5
K = 2000
UNDER = {"K-d": 1900.0, "K": 2000.0, "K+eps": 2000.2, "K-eps": 1999.8, "K+d": 2100.0, "0.4K": 800.0}  # 0.4K: a put pays more than one unit per contract
MARKS = {"normal": 0.05, "tiny": 0.0005, "missing": None}
EXPIRIES = {"before": timedelta(hours=-1), "on-h2": timedelta(hours=2), "between-h2-h3": timedelta(hours=2, minutes=30), "on-h0": timedelta(0),
            "after": timedelta(hours=9)}
HOLD = {"buy1": (1, 0), "buy3": (3, 0), "buy5sell2": (5, 2), "far-first-buy2": (2, 0),  # far-first: a later-expiring option is bought BEFORE this one
        # a second position (OPP: the opposite kind, same strike and expiry, so exactly one of the two is in the money) settles on the same bar
        "pair-opt-first": (2, 0), "pair-opp-first": (2, 0),
        # the longer-dated option is bought at hour 0, the option under test one bar later
        "late-buy2": (2, 0)}
OPP_AMOUNT = 3
BOOKS = ("opt-first", "other-first")  # other-first: the hour's first row is ANOTHER instrument whose underlying price lies on the other side of the strike


def r6(x: Fraction) -> Fraction:
    d = (Decimal(x.numerator) / Decimal(x.denominator)).quantize(Decimal("1e-6"), rounding=ROUND_HALF_UP)
    return F(d)


def other_name(case):
    return "A-OTHER" if case.get("book") == "other-first" else "OTHER"


def build_case(case):
    from mc.worlds import base
    from mc.worlds import deribit as db
    from mc.worlds import uni

    T0 = base.T0
    expiry = T0 + EXPIRIES[case["expiry"]]
    # settlement hour = first hour bar at or after expiry (may be beyond the data)
    settle_h = None
    for h in range(HOURS):
        if T0 + timedelta(hours=h) >= expiry:
            settle_h = h
            break
    buy_h = 0
    hours = []
    for h in range(HOURS):
        ts = T0 + timedelta(hours=h)
        if case.get("gap") and h == settle_h:
            continue  # the collector has no snapshot of this hour at all (no book, no trading); the account's price feed does have the hour (run_case)
        under = UNDER[case["under"]] if h == settle_h else 2000.0 + 3 * h
        instrs = []
        names = [("OPT", case["kind"]), (other_name(case), "CALL")]  # the frame is sorted by (hour, instrument name)
        if case["hold"].startswith("pair"):
            names.append(("OPP", "PUT" if case["kind"] == "CALL" else "CALL"))
        for name, kind in names:
            mark = 0.05
            if name == "OPT" and h == settle_h:
                if MARKS[case["mark"]] is None:
                    continue  # instrument missing from the book at the settlement bar
                mark = MARKS[case["mark"]]
            exp = T0 + timedelta(days=30) if name == other_name(case) else expiry
            asks = [[round(mark + 0.0005, 6), 9.0], [round(mark + 0.001, 6), 9.0]]
            bids = [[round(max(mark - 0.0005, 0.0001), 6), 9.0]]
            # every instrument row carries its OWN underlying price (the exchange quotes one per expiry)
            u = 2 * K - under if (name == other_name(case) and case.get("book") == "other-first") else under
            row = db.instrument(name, kind, K, exp, mark, u, asks, bids)
            if case.get("book") == "other-first" or case["hold"].startswith(("pair", "late")):
                row["settlement_price"] = 0.06  # the exchange's daily settlement price of the OPTION (in coin) - not what an expiry is settled against
            instrs.append(row)
        hours.append((ts, instrs))
        if case["co"] == "uni" and not case.get("gap"):
            # the collector also took a snapshot at half past the hour; the history is thinned to the hour below
            hours.append((ts + timedelta(minutes=30), [dict(x) for x in instrs]))
    data = db.frame(hours)
    if case["co"] == "uni" and not case.get("gap"):
        # rows filtered with a boolean mask: the frame's MultiIndex still lists the dropped :30 times among its (now unused) level values
        data = data[data.index.get_level_values(0).minute == 0]
    return data, expiry, settle_h


def run_case(case):
    """Returns observations of one real backtest."""
    import pandas as pd
    from mc.worlds import base
    from mc.worlds import deribit as db
    from mc.worlds import uni
    from mc.worlds.base import Scripted, make_actuator, run_quiet

    data, expiry, settle_h = build_case(case)
    T0 = base.T0
    m = db.make_market(data)
    markets = [m]
    prices = db.price_frame(data)
    assets = [(db.ETH, 10)]
    if case["co"] == "uni":
        pool = uni.pool_q0()
        n = (HOURS - 1) * 60 + 1
        raw = uni.raw_frame([200000] * n, 0, 0, 10**18)
        um = uni.make_market(pool, uni.prepared(raw, pool), "uni")
        markets = [um, m]
        up, _ = um.get_price_from_data()
        up = up.map(lambda y: Decimal(str(y)))
        prices = prices.loc[up.index[0]:up.index[-1]].copy()
        for c in up.columns:
            prices[c] = up[c]
        assets += [(uni.USDC, 1000), (uni.WETH, 1)]
        if case.get("gap") and settle_h is not None:
            # the price feed of the account is complete: from the settlement hour on it shows the underlying of that hour (the option history has a hole there)
            at = pd.Timestamp(T0) + pd.Timedelta(hours=settle_h)
            sel = (prices.index >= at) & (prices.index < at + pd.Timedelta(hours=1))
            prices.loc[sel, "ETH"] = Decimal(str(UNDER[case["under"]]))
    obs = {"bars": [], "held_after_bar": [], "cash_after_bar": [], "attempts": []}
    bought, sold = HOLD[case["hold"]]

    def on_bar(st, snap):
        ts = pd.Timestamp(snap.timestamp)
        on_hour = ts == ts.floor("1h")
        h = int((ts - pd.Timestamp(T0)) / pd.Timedelta(hours=1)) if on_hour else None
        if h == 0:
            m.deposit(Decimal(5))
            if case["hold"].startswith("far-first"):
                m.buy(other_name(case), Decimal(1))  # expires in 30 days; held before the option under test, so it comes first in the positions
            if case["hold"] == "pair-opp-first":
                m.buy("OPP", Decimal(OPP_AMOUNT))
            if case["hold"] == "late-buy2":
                m.buy(other_name(case), Decimal(1))
            else:
                m.buy("OPT", Decimal(bought))
            if case["hold"] == "pair-opt-first":
                m.buy("OPP", Decimal(OPP_AMOUNT))
        if h == 1 and case["hold"] == "late-buy2":
            m.buy("OPT", Decimal(bought))
        if h == 1 and sold and (settle_h is None or settle_h > 1):  # a position settled at hour 0 / 1 cannot be sold at hour 1
            m.sell("OPT", Decimal(sold))
        # trade attempts on the other instrument: open bars must accept, closed bars must refuse
        if case["co"] == "uni" and ts.minute in (0, 1, 30) and ts >= pd.Timestamp(T0) + pd.Timedelta(hours=1):
            try:
                m.buy(other_name(case), Decimal(1))
                obs["attempts"].append((snap.timestamp, on_hour, True, None))
            except Exception as e:  # noqa: BLE001
                obs["attempts"].append((snap.timestamp, on_hour, False, f"{type(e).__name__}: {e}"[:80]))

    def after_bar(st, snap):
        ts = pd.Timestamp(snap.timestamp)
        if case["co"] == "uni" and ts == ts.floor("1h") and ts >= pd.Timestamp(T0) + pd.Timedelta(hours=1):
            try:
                m.buy(other_name(case), Decimal(1))  # a write AFTER the market update of an open bar; the next (minute) bar must still be closed
            except Exception as e:  # noqa: BLE001
                obs["attempts"].append((snap.timestamp, True, False, f"after_bar: {type(e).__name__}: {e}"[:80]))
        obs["bars"].append(snap.timestamp)
        obs["held_after_bar"].append("OPT" in m.positions)
        obs["cash_after_bar"].append(m.balance)

    st = Scripted({("on_bar", "*"): [on_bar], ("after_bar", "*"): [after_bar]})
    st.script_errors_fatal = True
    act = make_actuator(markets, assets, st, prices)
    err = None
    try:
        run_quiet(act)
    except Exception as e:  # noqa: BLE001
        err = f"{type(e).__name__}: {e}"[:200]
    obs["actions"] = list(act.actions) if hasattr(act, "actions") else []
    obs["error"] = err
    obs["script_errors"] = list(st.errors)
    obs["data"] = data
    obs["expiry"] = expiry
    obs["settle_h"] = settle_h
    obs["T0"] = T0
    return obs


def judge(part, case):
    import pandas as pd

    obs = run_case(case)
    part.count("runs")
    if obs["error"] is not None:
        part.violation(f"C16|run|exception|{obs['error'].split(':')[0]}", "the backtest raised", case, {"error": obs["error"]})
        return
    if obs["script_errors"]:
        part.violation("C16|setup|rejected", "the scripted purchase / partial sale on an open bar was refused", case, {"errors": obs["script_errors"][:3]})
        return
    T0 = pd.Timestamp(obs["T0"])
    bars = [pd.Timestamp(b) for b in obs["bars"]]
    data = obs["data"]
    hours_in_data = set(data.index.get_level_values(0).unique())
    expiry = pd.Timestamp(obs["expiry"])
    bought, sold = HOLD[case["hold"]]
    if obs["settle_h"] is not None and obs["settle_h"] <= 1:
        sold = 0
    n = Fraction(bought - sold)
    # the hourly market serves a bar when the bar is on the hour; an hour of which the history has no snapshot has no book (nothing can be traded), but positions
    # that have expired by then are still settled on it, against the account's price feed and a mark of 0 - like an instrument that is missing from the book
    open_bars = [b for b in bars if b == b.floor("1h") and (b in hours_in_data or case.get("gap"))]
    settle_bar = next((b for b in open_bars if b >= expiry), None)
    acts = obs["actions"]
    expired = [a for a in acts if type(a).__name__ == "ExpiredAction" and a.instrument_name == "OPT"]
    delivered = [a for a in acts if type(a).__name__ == "DeliverAction" and a.instrument_name == "OPT"]
    part.count(f"expiry.{case['expiry']}")
    # ---- exactly once, at the first open bar at or after expiry, never before -------------------------------------------------
    if settle_bar is None:
        part.count("never_expires_in_run")
        if expired or delivered:
            part.violation("C16|settled-before-expiry", "a position was settled although no open bar at or after its expiry was reached", case,
                           {"expired_at": [str(a.timestamp) for a in expired]})
        if not obs["held_after_bar"][-1]:
            part.violation("C16|removed-before-expiry", "the position disappeared before its expiry", case)
        return
    part.count("settlements_judged")
    if len(expired) != 1:
        part.violation(f"C16|expired-count|{len(expired)}", "a position must be removed exactly once at expiry (one ExpiredAction)", case,
                       {"expired_at": [str(a.timestamp) for a in expired], "settle_bar": str(settle_bar)})
        return
    if pd.Timestamp(expired[0].timestamp) != settle_bar:
        why = "early" if pd.Timestamp(expired[0].timestamp) < settle_bar else "late"
        part.violation(f"C16|settle-bar|{why}", "the position was not settled at the first open bar at or after its expiry", case,
                       {"settled_at": str(expired[0].timestamp), "expected": str(settle_bar), "expiry": str(expiry)})
        return
    i = bars.index(settle_bar)
    first_held = 0
    if case["hold"] == "late-buy2":
        first_held = bars.index(T0 + pd.Timedelta(hours=1))  # bought one hour into the run
    held_before = all(obs["held_after_bar"][first_held:i])
    if not held_before or obs["held_after_bar"][i]:
        part.violation("C16|held-flags", "the position must be held on every bar before the settlement bar and gone afterwards", case,
                       {"held_after_bar": obs["held_after_bar"][first_held:i + 2]})
    if any(obs["held_after_bar"][i:]):
        part.violation("C16|reappeared", "a settled position is held again", case)
    # ---- payoff --------------------------------------------------------------------------------------------------------------
    rows = data.loc[settle_bar] if settle_bar in hours_in_data else None
    if rows is None:
        S = F(Decimal(str(UNDER[case["under"]])))  # what the account's price feed shows for that hour
        mark = Fraction(0)
    elif "OPT" in rows.index:
        S = F(Decimal(str(rows.loc["OPT"].underlying_price)))
        mark = F(Decimal(str(rows.loc["OPT"].mark_price)))
    else:
        S = F(Decimal(str(rows.iloc[0].underlying_price)))  # the price frame is built from the hour's underlying price
        mark = Fraction(0)
    is_call = case["kind"] == "CALL"
    diff = (S - K) if is_call else (K - S)
    gross = r6(n * diff / S) if diff > 0 else Fraction(0)
    fee = r6(min(Fraction(15, 100000) * n, Fraction(1, 8) * n * r6(mark)))
    pays = diff > 0 and gross > fee
    want = gross - fee if pays else Fraction(0)
    want_opp = Fraction(0)
    if case["hold"].startswith("pair"):
        # the second position: opposite kind, same strike, its own row's underlying and mark
        So = F(Decimal(str(rows.loc["OPP"].underlying_price)))
        mo = F(Decimal(str(rows.loc["OPP"].mark_price)))
        no = Fraction(OPP_AMOUNT)
        diff_o = (K - So) if is_call else (So - K)
        gross_o = r6(no * diff_o / So) if diff_o > 0 else Fraction(0)
        fee_o = r6(min(Fraction(15, 100000) * no, Fraction(1, 8) * no * r6(mo)))
        pays_o = diff_o > 0 and gross_o > fee_o
        want_opp = gross_o - fee_o if pays_o else Fraction(0)
        exp_o = [a for a in acts if type(a).__name__ == "ExpiredAction" and a.instrument_name == "OPP"]
        del_o = [a for a in acts if type(a).__name__ == "DeliverAction" and a.instrument_name == "OPP"]
        if len(exp_o) != 1 or pd.Timestamp(exp_o[0].timestamp) != settle_bar:
            part.violation("C16|pair|expired", "the second position expiring on the same bar was not removed exactly once at that bar", case,
                           {"expired_at": [str(a.timestamp) for a in exp_o]})
        if len(del_o) != (1 if pays_o else 0):
            part.violation("C16|pair|deliver-action", "the second position expiring on the same bar: a DeliverAction is recorded if and only if it pays", case,
                           {"deliver_actions": len(del_o), "pays": pays_o})
        elif pays_o and (F(del_o[0].deriver_amount) != gross_o or F(del_o[0].fee) != fee_o or F(del_o[0].income_amount) != want_opp):
            part.violation("C16|pair|deliver-fields", "DeliverAction of the second position does not match its settlement", case,
                           {"recorded": [str(del_o[0].deriver_amount), str(del_o[0].fee), str(del_o[0].income_amount)], "expected": [float(gross_o), float(fee_o), float(want_opp)]})
    cash_before = F(obs["cash_after_bar"][i - 1]) if i > 0 else None
    # the settlement bar may also hold the scripted trades of that hour (purchase at h0, partial sale at h1, attempts on OTHER)
    trade_delta = Fraction(0)
    for a in acts:
        if pd.Timestamp(a.timestamp) == settle_bar and type(a).__name__ in ("BuyAction", "SellAction"):
            prem, f = F(a.total_premium), F(a.fee)
            trade_delta += (-(prem + f)) if type(a).__name__ == "BuyAction" else (prem - f)
        if pd.Timestamp(a.timestamp) == settle_bar and type(a).__name__ == "DepositAction":
            trade_delta += F(a.amount)
    if cash_before is None:
        cash_before = Fraction(0)
    got = F(obs["cash_after_bar"][i]) - cash_before - trade_delta
    part.count("pays" if pays else "pays_nothing")
    detail = {"settle_bar": str(settle_bar), "underlying": float(S), "mark": float(mark), "contracts": float(n), "gross": float(gross), "fee": float(fee),
              "expected_income": float(want), "expected_income_second_position": float(want_opp), "cash_delta": float(got)}
    if got != want + want_opp:
        part.violation(f"C16|payoff|{'itm' if diff > 0 else 'otm'}|{case['mark']}", "cash received at settlement != contracts x |S-K|/S - min(0.015% x contracts, "
                       "12.5% x option value) (nothing when out of the money or when the payoff does not cover the fee)", case, detail)
    if pays:
        if len(delivered) != 1:
            part.violation("C16|deliver-action|count", "an in-the-money settlement must record exactly one DeliverAction", case, detail)
        else:
            d = delivered[0]
            if F(d.deriver_amount) != gross or F(d.fee) != fee or F(d.income_amount) != want or pd.Timestamp(d.timestamp) != settle_bar:
                part.violation("C16|deliver-action|fields", "DeliverAction fields do not match the settlement", case,
                               dict(detail, recorded=[str(d.deriver_amount), str(d.fee), str(d.income_amount)]))
    elif delivered:
        part.violation("C16|deliver-action|unexpected", "a DeliverAction was recorded although nothing is paid", case, detail)
    # ---- open / closed bars ----------------------------------------------------------------------------------------------------
    for ts, on_hour, ok, err in obs["attempts"]:
        part.count("trade_attempts")
        on_hour = on_hour and pd.Timestamp(ts) in hours_in_data  # an hour without a snapshot is no open bar
        if on_hour and not ok:
            part.violation("C16|open-bar-trade-refused", "a trade on an open (hourly) bar was refused", case, {"bar": str(ts), "error": err})
            break
        if not on_hour and ok:
            part.violation("C16|closed-bar-trade-accepted", "the hourly market accepted a trade on a bar where it is closed", case, {"bar": str(ts)})
            break


def work(args):
    seed, cases = args
    part = Part(seed)
    for case in cases:
        part.sample(case, every=37)
        judge(part, case)
    return part.result()


def all_cases(run):
    kinds = ["CALL", "PUT"]
    unders = list(UNDER)
    marks = list(MARKS)
    exps = list(EXPIRIES)
    holds = list(HOLD)
    cos = ["alone", "uni"]
    out = []
    for k, u, mk, e, h, co, bk in itertools.product(kinds, unders, marks, exps, holds, cos, BOOKS):
        if bk == "other-first" and (mk != "normal" or h not in ("buy1", "pair-opt-first") or u in ("K", "K+eps", "K-eps")):
            continue
        if h.startswith("pair") and (mk == "missing" or (co == "uni" and not run.thorough)):
            continue
        if u == "0.4K" and (mk != "normal" or h not in ("buy1", "buy5sell2", "pair-opp-first")):
            continue
        if h == "late-buy2" and (e in ("before", "on-h0") or mk != "normal" or bk != "opt-first" or (co == "uni" and not run.thorough)):
            continue
        if not run.thorough:
            if co == "uni" and (h != "buy5sell2" or bk != "opt-first" or mk == "missing" and u not in ("K+d", "K-d")):
                continue
            if h == "buy3" and mk != "normal":
                continue
        if e == "after" and (u != "K+d" or mk != "normal"):
            continue
        if mk == "missing" and e in ("before", "on-h0"):
            continue  # the position is bought at hour 0, where the instrument then has to be in the book
        out.append({"kind": k, "under": u, "mark": mk, "expiry": e, "hold": h, "co": co, "book": bk})
        if co == "uni" and mk == "normal" and e in ("on-h2", "between-h2-h3") and h in ("buy5sell2", "buy1") and bk == "opt-first" and u in ("K+d", "K-d", "K"):
            # the hour of the settlement is missing from the option history while the minutely market has its bars
            out.append({"kind": k, "under": u, "mark": mk, "expiry": e, "hold": h, "co": co, "book": bk, "gap": True})
    return out


def main(run: Run):
    cases = run.rotate(all_cases(run))
    for r in pmap(work, [(run.seed, ch) for ch in chunks(cases, 64)]):
        run.merge(r)
    c = run.counters
    cov = {
        "states": c.get("runs", 0), "transitions": c.get("runs", 0) * HOURS, "traces_validated_against_impl": c.get("runs", 0),
        "evaluations": c.get("settlements_judged", 0) + c.get("trade_attempts", 0), "distinct_nontrivial": c.get("settlements_judged", 0),
        "rule": "kind {CALL, PUT} x underlying at settlement {K-d, K-eps, K, K+eps, K+d} x mark {normal, tiny, instrument missing} x expiry {before first "
                "bar, on hour 0, on hour 2, between hours 2 and 3, after the data} x holding {1, 3, 5 bought 2 sold} x {option market alone (hourly bars), "
                "beside a minutely Uniswap market (241 minute bars)}; every case is one real Actuator.run",
        "pays": c.get("pays", 0), "pays_nothing": c.get("pays_nothing", 0), "never_expires_in_run": c.get("never_expires_in_run", 0),
        "trade_attempts": c.get("trade_attempts", 0),
        "exhaustive": True, "completed_bound": {"cases": len(cases), "hours": HOURS},
    }
    return run.finish(cov, ["open bar = bar on the hour whose hour is present in the option data", "underlying and mark are the instrument's values at the "
                            "settlement bar; an instrument missing from the book settles with mark 0 (fee 0) at the hour's underlying price",
                            "amounts rounded half-up to 1e-6 as the exchange does"])


def replay(run: Run, path):
    data = json.load(open(path))
    part = Part()
    judge(part, data["case"])
    for sig, v in part.violations.items():
        print("reproduced:", sig, v[0], v[2])
    print("REPLAY", "violations" if part.violations else "clean")
    return 1 if part.violations else 0
