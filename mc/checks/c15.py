"""C15 — option orders fill best-first at displayed sizes; cash, fee, position exact.

Explicit-state exploration of buy / sell / refresh / deposit sequences within one bar on the real DeribitOptionMarket
over a family of order books (0-3 levels per side, sizes {1,2,5}, prices on a 0.0005 grid with bids <= mark <= asks),
in lock-step with a boring order-book model in exact Fractions: best-first fills, per-level fill <= displayed size,
total = amount rounded to the contract step, cost = sum price x size + min(0.0003 n, 0.125 premium) rounded to 1e-6,
limit orders only at their level, caps exclude worse levels, the visible book shrinks until the next refresh,
size-weighted average prices, equity = cash + sum amount x mark, unheld / over-held sells rejected."""
from __future__ import annotations

import itertools
import json
from decimal import ROUND_HALF_UP, Decimal
from fractions import Fraction

from mc.engine.core import Part, Run, pmap
from mc.worlds import kit
from mc.worlds.kit import F, Op

LEVEL = "model_checking"
MARK = {"C1": Decimal("0.0495"), "P1": Decimal("0.0295")}
STEP = Decimal("0.0005")
SIZES = (1, 2, 5)


def books(thorough):
    """All books of the alphabet for instrument C1: k_a ask levels x k_b bid levels with sizes from SIZES."""
    out = []
    kmax = 3
    size_sets = {0: [()], 1: [(1,), (5,)], 2: [(1, 2), (5, 1), (2, 2)], 3: [(1, 2, 5), (5, 1, 2), (2, 2, 2)]}
    if thorough:
        size_sets = {k: list(itertools.product(SIZES, repeat=k)) for k in range(kmax + 1)}
    for ka in range(kmax + 1):
        for kb in range(kmax + 1):
            if not thorough and (ka, kb) not in ((0, 2), (1, 1), (2, 0), (2, 2), (3, 1), (1, 3), (3, 3), (3, 2)):
                continue
            sa = size_sets[ka] if thorough or ka != kb else size_sets[ka][:2]
            sb = size_sets[kb] if thorough else size_sets[kb][:2]
            if thorough and ka + kb > 4:
                sa, sb = sa[::4], sb[::5]
            for a in sa:
                for b in sb:
                    out.append((tuple(a), tuple(b)))
    # dedup, stable
    seen, res = set(), []
    for x in out:
        if x not in seen:
            seen.add(x)
            res.append(x)
    return res


def book_rows(book, first_ask_off=1, first_bid_off=1, mark=None):
    a, b = book
    m = mark if mark is not None else MARK["C1"]
    asks = [[float(m + STEP * (i + first_ask_off)), float(s)] for i, s in enumerate(a)]
    bids = [[float(m - STEP * (i + first_bid_off)), float(s)] for i, s in enumerate(b)]
    return asks, bids


def make_world(book, touch=False):
    configure(touch)
    return _make_world(book, touch)


def _make_world(book, touch=False):
    """touch=True puts the best ask / best bid exactly ON the mark (bids <= mark <= asks allows equality)."""
    from demeter._typing import USD
    from mc.worlds import deribit as db
    from mc.worlds.catalog import World
    from mc.worlds.kit import Ctx

    if touch == "dyadic":
        # binary-exact prices so that a level can sit EXACTLY on mark x cap (cap 2): mark 1/32, levels at 1/16 and 1/64
        a, b = book
        asks = [[0.032, float(a[0])]] + ([[0.0625, float(a[1])]] if len(a) > 1 else []) + ([[0.07, float(a[2])]] if len(a) > 2 else [])
        bids = [[0.03, float(b[0])]] + ([[0.015625, float(b[1])]] if len(b) > 1 else []) + ([[0.01, float(b[2])]] if len(b) > 2 else [])
        c1_mark = 0.03125
    elif touch in ("cheap", "deep"):
        # cheap: premiums below 0.0024, where 12.5 % of the premium (not 0.03 % per contract) is the binding fee term, level by level different;
        # deep: a deep in-the-money option whose neighbouring levels lie within 0.1 % of each other
        mk = Decimal("0.002") if touch == "cheap" else Decimal("0.64")
        # cheap: the best ask sits on the mark (0.002, cap binds) and the next ones above 0.0024 (flat fee binds): an order sweeping both mixes the two terms
        asks, bids = book_rows(book, 0 if touch == "cheap" else 1, 1, mk)
        c1_mark = float(mk)
    elif touch == "btc":
        # the BTC market trades in tenths of a contract; level sizes are whole numbers stored as ints (as a json / csv loader delivers them)
        asks, bids = book_rows(book, 1, 1)
        asks, bids = [[p, int(a)] for p, a in asks], [[p, int(a)] for p, a in bids]
        c1_mark = float(MARK["C1"])
    else:
        asks, bids = book_rows(book, 0 if touch else 1, 0 if touch else 1)
        c1_mark = float(MARK["C1"])
    # C1 belongs to another expiry than the first instrument of the book: it is quoted against its own underlying (0.4 % above the index the market's token
    # price is taken from), so a limit price given in USD converts with THAT underlying
    # (A0 sorts first in the hourly frame: the market's token price is taken from the first row of an hour)
    bk = {"A0": dict(kind="PUT", strike=1500, mark=0.004, asks=[[0.0045, 1.0]], bids=[[0.0035, 1.0]]),
          "P1": dict(kind="PUT", strike=1900, mark=float(MARK["P1"]), asks=[[0.03, 2.0], [0.0305, 1.0]], bids=[[0.029, 4.0]]),
          "C1": dict(kind="CALL", strike=2000, mark=c1_mark, asks=asks, bids=bids, basis=1.004)}
    data = db.std_frame(2, books=bk, mark_drift=0.0)
    prices = db.price_frame(data)
    index = data.index.get_level_values(0).unique()

    if touch == "btc":
        prices = prices.rename(columns={"ETH": "BTC"})

    def build():
        if touch == "btc":
            from demeter import MarketInfo, MarketTypeEnum
            from demeter.deribit import DeribitOptionMarket

            m = DeribitOptionMarket(MarketInfo("deribit", MarketTypeEnum.deribit_option), DeribitOptionMarket.BTC, data=data)
            wallet = [(DeribitOptionMarket.BTC, 5)]
        else:
            m = db.make_market(data)
            wallet = [(db.ETH, 5)]
        ad = db.DeribitAdapter(m, data)
        ctx = Ctx("deribit", prices, USD, [ad], wallet, index)
        ctx.begin_bar(0)
        m.deposit(Decimal(3))
        ctx.model = ref_init(bk, Decimal(3))
        ctx.canon_model = False
        return ctx
    w = World("deribit", build, ((),), {"deribit.data": data, "prices": prices})
    w.db = db
    w.bk = bk
    w.marks = {"C1": Decimal(str(c1_mark)), "P1": MARK["P1"]}
    return w


# ---- reference model -----------------------------------------------------------------------------------------------------
def ref_init(bk, cash):
    return {"cash": F(cash), "pos": {}, "book": {k: {"asks": [[F(Decimal(str(p))), F(Decimal(str(a)))] for p, a in v["asks"]],
                                                     "bids": [[F(Decimal(str(p))), F(Decimal(str(a)))] for p, a in v["bids"]]}
                                              for k, v in bk.items()},
            "fresh": {k: {"asks": [[F(Decimal(str(p))), F(Decimal(str(a)))] for p, a in v["asks"]],
                          "bids": [[F(Decimal(str(p))), F(Decimal(str(a)))] for p, a in v["bids"]]} for k, v in bk.items()}}


CFG = {"step": Decimal(1), "fee_q": Decimal("1e-6")}  # ETH contracts: whole contracts, fees to 1e-6; BTC: 0.1 contracts, fees to 1e-8 (set per partition)


def configure(touch):
    if touch == "btc":
        CFG.update(step=Decimal("0.1"), fee_q=Decimal("1e-8"))
    else:
        CFG.update(step=Decimal(1), fee_q=Decimal("1e-6"))


def round_amount(a: Decimal) -> Decimal:
    if a < CFG["step"]:
        return CFG["step"]
    return a.quantize(CFG["step"], rounding=ROUND_HALF_UP)


def r6(fr: Fraction) -> Fraction:
    d = (Decimal(fr.numerator) / Decimal(fr.denominator)).quantize(CFG["fee_q"], rounding=ROUND_HALF_UP)
    return F(d)


def ref_fill(md, ins, side, amt: Decimal, mode, mark, inclusive=False):
    """-> (fills [(price, size)], n) or None when the model says the order cannot be filled as the property demands."""
    if ins not in md["book"] or amt < CFG["step"]:
        return None
    n = F(round_amount(amt))
    levels = md["book"][ins]["asks" if side == "buy" else "bids"]
    idx = list(range(len(levels)))
    if mode[0] == "cap":
        mult = F(Decimal(mode[1]))
        if side == "buy":
            idx = [i for i in idx if levels[i][0] < mult * F(mark) or (inclusive and levels[i][0] == mult * F(mark))]
        else:
            idx = [i for i in idx if levels[i][0] > F(mark) / mult or (inclusive and levels[i][0] == F(mark) / mult)]
    if mode[0] == "limit":
        j = mode[1]
        if j >= len(levels) or j not in idx:
            return None
        if levels[j][1] < n:
            return None
        return [(levels[j][0], n, j)], n
    fills = []
    left = n
    for i in idx:
        if left == 0:
            break
        if levels[i][1] == 0:
            continue
        take = min(levels[i][1], left)
        fills.append((levels[i][0], take, i))
        left -= take
    if left > 0:
        return None
    return fills, n


def ref_apply(md, ins, side, fills, n):
    premium = sum((p * s for p, s, _ in fills), Fraction(0))
    fee = r6(min(Fraction(3, 10000) * n, Fraction(1, 8) * premium))
    levels = md["book"][ins]["asks" if side == "buy" else "bids"]
    for p, s, i in fills:
        levels[i][1] -= s
    avg = premium / n
    if side == "buy":
        md["cash"] -= premium + fee
        pos = md["pos"].setdefault(ins, {"amount": Fraction(0), "avg_buy": Fraction(0), "buy_amount": Fraction(0), "avg_sell": Fraction(0),
                                         "sell_amount": Fraction(0)})
        pos["avg_buy"] = (pos["avg_buy"] * pos["buy_amount"] + premium) / (pos["buy_amount"] + n)
        pos["buy_amount"] += n
        pos["amount"] += n
    else:
        md["cash"] += premium - fee
        pos = md["pos"][ins]
        pos["avg_sell"] = (pos["avg_sell"] * pos["sell_amount"] + premium) / (pos["sell_amount"] + n)
        pos["sell_amount"] += n
        pos["amount"] -= n
        if pos["amount"] == 0:
            del md["pos"][ins]
    return premium, fee, avg


# ---- alphabet --------------------------------------------------------------------------------------------------------------
AMOUNTS = ["1", "2", "3", "6", "2.4", "2.5", "0.4", "14"]
QUICK_AMOUNTS = ["1", "2", "3", "6", "2.5", "14"]
BTC_AMOUNTS = ["0.5", "1.5", "2", "0.04", "2.45", "6"]


def alphabet(world, amounts):
    def ops(ctx):
        ad = ctx.adapters[0]
        m = ad.market
        out = []

        def trade(side, ins, amt, mode):
            def call(c):
                d = m.market_status.data
                kw = {}
                if mode[0] == "limit":
                    lv = (d.loc[ins].asks if side == "buy" else d.loc[ins].bids) if ins in d.index else []
                    j = mode[1]
                    p = Decimal(str(lv[j][0])) if j < len(lv) else Decimal("0.0777")
                    if mode[2] == "usd":
                        kw["price_in_usd"] = p * Decimal(str(d.loc[ins].underlying_price))
                    else:
                        kw["price_in_token"] = p
                elif mode[0] == "cap":
                    kw["max_mark_price_multiple"] = Decimal(mode[1])
                c.last = {"side": side, "ins": ins, "amt": Decimal(amt), "mode": mode}
                return (m.buy if side == "buy" else m.sell)(ins, Decimal(amt), **kw)
            return call
        modes = [("market",), ("limit", 0, "token"), ("limit", 1, "token"), ("limit", 0, "usd"), ("cap", "1.011"), ("cap", "1.5"), ("cap", "2"), ("cap", "3")]
        for side in ("buy", "sell"):
            for amt in amounts:
                for mode in modes:
                    if amt in ("2.4", "2.5", "0.4", "14") and mode != ("market",):
                        continue
                    if mode[0] == "limit" and mode[1] == 1 and amt not in ("1", "2"):
                        continue
                    if mode == ("limit", 0, "usd") and amt != "2":
                        continue
                    default = amt in ("1", "2") and mode == ("market",)
                    tag = "market" if mode == ("market",) else (f"L{mode[1]}{'usd' if mode[2] == 'usd' else ''}" if mode[0] == "limit" else f"cap{mode[1]}")
                    out.append(Op(f"{side}[C1,{amt},{tag}]", trade(side, "C1", amt, mode), not default, side))
            out.append(Op(f"{side}[P1,1,market]", trade(side, "P1", "1", ("market",)), False, side))
            out.append(Op(f"{side}[NOPE,1,market]", trade(side, "NOPE", "1", ("market",)), True, side))

        def refresh(c):
            from demeter import MarketStatus

            c.last = {"side": "refresh"}
            ts = c.index[c.bar]
            m.set_market_status(MarketStatus(ts, None), c.prices.loc[ts])
        out.append(Op("refresh", refresh, False, "refresh"))

        def ask_cost(c):
            # asking what an order would cost is a read: the book, cash and positions stay as they are
            c.last = {"side": "look"}
            return (m.estimate_cost("C1", Decimal(3), "buy"), m.estimate_cost("C1", Decimal(2), "sell"))
        out.append(Op("estimate_cost[C1]", ask_cost, True, "look"))

        def limit_outside_cap(side):
            def call(c):
                # a limit price naming the SECOND level together with a cap that only admits the first: no level satisfies both
                d = m.market_status.data
                lv = (d.loc["C1"].asks if side == "buy" else d.loc["C1"].bids) if "C1" in d.index else []
                if len(lv) < 2:
                    raise AssertionError("book has no second level")
                mark = Decimal(str(d.loc["C1"].mark_price))
                p1, p2 = Decimal(str(lv[0][0])), Decimal(str(lv[1][0]))
                mult = ((p1 + p2) / 2 / mark) if side == "buy" else (mark / ((p1 + p2) / 2))
                if mult <= 1:
                    raise AssertionError("first level on the mark")
                if abs(p1 - p2) <= Decimal("0.002") * max(p1, p2):
                    raise AssertionError("the two levels lie within the market's own price-matching tolerance of each other")
                c.last = {"side": "must-refuse"}
                return (m.buy if side == "buy" else m.sell)("C1", Decimal(1), price_in_token=p2, max_mark_price_multiple=mult)
            return call
        out.append(Op("buy[C1,1,L1+cap-between]", limit_outside_cap("buy"), True, "must-refuse"))
        out.append(Op("sell[C1,1,L1+cap-between]", limit_outside_cap("sell"), True, "must-refuse"))

        def dep(c):
            c.last = {"side": "deposit"}
            return m.deposit(Decimal("0.25"))
        out.append(Op("deposit[0.25]", dep, False, "deposit"))

        def wd(c):
            c.last = {"side": "withdraw"}
            return m.withdraw(m.balance - Decimal("0.02"))
        out.append(Op("withdraw[leave 0.02]", wd, True, "withdraw"))

        # cash a hair below / above what two C1 contracts cost at the market (premium + fee): the order is unaffordable / affordable, and the hair stays
        def leave(frac):
            def f(c):
                rf = ref_fill(c.model, "C1", "buy", Decimal(2), ("market",), world.marks.get("C1", Decimal(0))) if c.model else None
                if rf is None:
                    raise AssertionError("no fillable two-contract order in this book")  # counted as a refused event, changes nothing
                fills, n = rf
                prem = sum((p * s_ for p, s_, _ in fills), Fraction(0))
                cost = prem + r6(min(Fraction(3, 10000) * n, Fraction(1, 8) * prem))
                target = (Decimal(cost.numerator) / Decimal(cost.denominator)) * frac
                c.last = {"side": "withdraw-to", "target": target}
                if m.balance <= target:
                    raise AssertionError("cash already below the target")
                return m.withdraw(m.balance - target)
            return f
        if not m.positions:  # offered before the first trade only (what matters is the order that follows)
            out.append(Op("withdraw[to cost of 2 C1, -5e-6]", leave(Decimal("0.999995")), True, "withdraw"))
            out.append(Op("withdraw[to cost of 2 C1, +5e-6]", leave(Decimal("1.000005")), True, "withdraw"))
        return out
    return ops


class Oracle:
    def __init__(self, part, world, book, touch):
        self.part = part
        self.world = world
        self.book = book
        self.touch = touch

    def case(self, hist):
        return {"book": [list(self.book[0]), list(self.book[1])], "touch": self.touch, "history": list(hist)}

    def on_state(self, ctx, hist):
        self.part.sample(self.case(hist), every=1499)

    def on_transition(self, ctx, hist, op, pre_raw, snap, out):
        part = self.part
        part.count("transitions")
        ad = ctx.adapters[0]
        m = ad.market
        md = ctx.model
        info = ctx.last
        side = info["side"]
        case = self.case(hist)
        if side == "must-refuse" and out.ok:
            part.violation(f"C15|{op.label.split('[')[0]}|accepted-outside-cap|limit+cap", "an order whose limit price names a level outside its own price cap was accepted", case,
                           {"label": op.label})
            return self.resync(ctx)
        if side == "refresh":
            md["book"] = {k: {s: [list(l) for l in v[s]] for s in v} for k, v in md["fresh"].items()}
        elif side == "deposit" and out.ok:
            md["cash"] += Fraction(1, 4)
        elif side == "withdraw" and out.ok:
            md["cash"] = Fraction(2, 100)
        elif side == "withdraw-to" and out.ok:
            md["cash"] = F(info["target"])
        elif side in ("buy", "sell"):
            ins, amt, mode = info["ins"], info["amt"], info["mode"]
            mark = self.world.marks.get(ins, Decimal(0))
            rf = ref_fill(md, ins, side, amt, mode, mark)
            if mode[0] == "cap" and out.ok:
                # a level exactly ON mark x cap may be read as inside or outside the cap; the implementation has to be consistent with ONE reading
                alt = ref_fill(md, ins, side, amt, mode, mark, inclusive=True)
                if alt != rf and alt is not None:
                    orders = out.ret[0]
                    got = [(F(Decimal(o.price)), F(Decimal(o.amount))) for o in orders if Decimal(o.amount) != 0]
                    if got == [(p, s_) for p, s_, _ in alt[0]]:
                        rf = alt
                        part.count("on_cap_level_read_as_inside")
            held = md["pos"].get(ins, {}).get("amount", Fraction(0))
            n = F(round_amount(amt)) if amt >= CFG["step"] else None
            part.count(f"{side}.{'acc' if out.ok else 'rej'}")
            if out.ok:
                if rf is None:
                    part.violation(f"C15|{side}|accepted-unfillable|{mode[0]}", "an order was accepted although the visible book (within the limit / cap) "
                                   "cannot fill the requested amount", case, {"label": op.label, "book": md["book"].get(ins)})
                    ctx.model = None
                    return self.resync(ctx)
                fills, n = rf
                if side == "sell" and n > held:
                    part.violation("C15|sell|more-than-held", "contracts that are not held were sold", case, {"label": op.label, "held": float(held)})
                    return self.resync(ctx)
                cash_before = md["cash"]
                premium, fee, avg = ref_apply(md, ins, side, fills, n)
                if side == "buy" and md["cash"] < 0:
                    part.violation("C15|buy|accepted-without-cash", "a buy was accepted although cash does not cover cost + fee", case,
                                   {"label": op.label, "cash_before": float(cash_before), "cost": float(premium + fee)})
                    return self.resync(ctx)
                orders, got_fee = out.ret
                got = [(F(Decimal(o.price)), F(Decimal(o.amount))) for o in orders if Decimal(o.amount) != 0]
                want = [(p, s) for p, s, _ in fills]
                if got != want:
                    part.violation(f"C15|{side}|fills|{mode[0]}", "returned fills differ from best-first filling at displayed sizes", case,
                                   {"label": op.label, "got": [(float(p), float(s)) for p, s in got], "want": [(float(p), float(s)) for p, s in want]})
                if F(Decimal(got_fee)) != fee:
                    part.violation(f"C15|{side}|fee", "fee != min(0.03% x contracts, 12.5% x premium) rounded to 1e-6", case,
                                   {"label": op.label, "got": str(got_fee), "want": float(fee)})
                part.count("fills_checked")
            else:
                if rf is not None and (side == "buy" or rf[1] <= held):
                    fills, n = rf
                    prem = sum((p * s for p, s, _ in fills), Fraction(0))
                    fee = r6(min(Fraction(3, 10000) * n, Fraction(1, 8) * prem))
                    if side == "sell" or md["cash"] >= prem + fee:
                        part.count("fillable_but_rejected")
                        part.violation(f"C15|{side}|fillable-rejected|{mode[0]}", "an order that the visible book can fill exactly (and cash / holding cover) "
                                       "was rejected", case, {"label": op.label, "error": out.error, "book": [[float(p), float(a)] for p, a in
                                                                                                           md["book"][ins]["asks" if side == "buy" else "bids"]]})
        self._last_ok = out.ok
        self.compare(ctx, hist, op)

    def resync(self, ctx):
        """After a reported divergence the model is re-read from the implementation so later steps are judged on their own."""
        ad = ctx.adapters[0]
        m = ad.market
        md = ctx.model or {"fresh": ref_init(self.world.bk, 0)["fresh"]}
        md["cash"] = F(m.balance)
        md["pos"] = {k: {"amount": F(p.amount), "avg_buy": F(Decimal(p.avg_buy_price)), "buy_amount": F(p.buy_amount),
                         "avg_sell": F(Decimal(p.avg_sell_price)), "sell_amount": F(p.sell_amount)} for k, p in m.positions.items()}
        md["book"] = {k: {s: [[F(Decimal(str(p))), F(Decimal(str(a)))] for p, a in v[s]] for s in ("asks", "bids")} for k, v in ad.book().items()}
        ctx.model = md

    def compare(self, ctx, hist, op):
        part = self.part
        ad = ctx.adapters[0]
        m = ad.market
        md = ctx.model
        case = self.case(hist)
        part.count("state_comparisons")
        tol = Fraction(1, 10**25)
        if abs(F(m.balance) - md["cash"]) > tol:
            part.violation(f"C15|cash|{op.kind}", "exchange cash differs from the model (cost = sum price x size +/- fee)", case,
                           {"label": op.label, "impl": str(m.balance), "model": float(md["cash"])})
            return self.resync(ctx)
        if set(m.positions) != set(md["pos"]):
            part.violation(f"C15|positions|{op.kind}", "held instruments differ from the model", case,
                           {"label": op.label, "impl": sorted(m.positions), "model": sorted(md["pos"])})
            return self.resync(ctx)
        for k, p in m.positions.items():
            q = md["pos"][k]
            for f_impl, f_ref in (("amount", "amount"), ("avg_buy_price", "avg_buy"), ("buy_amount", "buy_amount"), ("avg_sell_price", "avg_sell"),
                                  ("sell_amount", "sell_amount")):
                if abs(F(Decimal(getattr(p, f_impl))) - q[f_ref]) > tol * max(1, abs(q[f_ref])):
                    part.violation(f"C15|position.{f_ref}|{op.kind}", f"position field {f_ref} differs from the model (size-weighted averages, exact amounts)",
                                   case, {"label": op.label, "impl": str(getattr(p, f_impl)), "model": float(q[f_ref])})
                    return self.resync(ctx)
        bk = ad.book()
        for ins, sides in md["book"].items():
            for s in ("asks", "bids"):
                impl = [(round(p, 9), round(a, 9)) for p, a in bk.get(ins, {}).get(s, [])]
                ref = [(round(float(p), 9), round(float(a), 9)) for p, a in sides[s]]
                if impl != ref:
                    part.violation(f"C15|book.{s}|{op.kind}", "the visible order book differs from the model (fills shrink it until the next refresh)", case,
                                   {"label": op.label, "instrument": ins, "impl": impl, "model": ref})
                    return self.resync(ctx)
        if op.kind in ("buy", "sell") and getattr(self, "_last_ok", True):
            # right after a trade the oracle looks at the equity WITHOUT leaving a trace (snapshot / restore): whatever the market memoises about its
            # balance stays as the strategy's own calls left it, so that a later look (after a status refresh) shows whether it went stale
            keep = ctx.snapshot()
            bal = m.get_market_balance()
            ctx.restore(keep)
            md = ctx.model
        else:
            bal = m.get_market_balance()
        eq = md["cash"] + sum((q["amount"] * F(self.world.marks[k]) for k, q in md["pos"].items()), Fraction(0))
        if abs(F(bal.net_value) - eq) > tol or abs(F(bal.balance) - md["cash"]) > tol or abs(F(bal.premium) - (eq - md["cash"])) > tol:
            part.violation(f"C15|equity|{op.kind}", "equity != cash + positions at mark", case, {"label": op.label, "impl": str(bal.net_value), "model": float(eq)})

    def finish(self):
        pass


def run_partition(args):
    seed, book, touch, depth, max_dev, amounts = args
    world = make_world(book, touch)
    part = Part(seed)
    orc = Oracle(part, world, book, touch)
    if touch == "btc":
        amounts = BTC_AMOUNTS
    stats = kit.explore(world.build, alphabet(world, amounts), depth, max_dev, orc.on_transition, on_state=orc.on_state, roots=((),))
    r = part.result()
    r["stats"] = stats
    return r


def main(run: Run):
    depth, max_dev = run.pick((3, 2), (3, 3))
    amounts = run.pick(QUICK_AMOUNTS, AMOUNTS)
    bks = books(run.thorough)
    jobs = [(run.seed, b, False, depth, max_dev, amounts) for b in bks]
    jobs += [(run.seed, b, True, depth, max_dev, amounts) for b in bks if len(b[0]) >= 1 and len(b[1]) >= 1][:: (1 if run.thorough else 3)]
    jobs += [(run.seed, b, "dyadic", depth, max_dev, amounts) for b in (((5, 2), (5, 2)), ((2, 5, 1), (1, 5)), ((1, 1), (2, 2, 2)))]
    jobs += [(run.seed, b, t, depth, max_dev, amounts) for t in ("cheap", "deep") for b in (((5, 2, 1), (5, 2, 1)), ((1, 2, 5), (2, 2)), ((2, 2), (1, 5, 2)))]
    jobs += [(run.seed, b, "btc", depth, max_dev, amounts) for b in (((5, 2), (5, 2)), ((2, 5, 1), (1, 5)), ((1, 2, 5), (2, 2)))]
    jobs = run.rotate(jobs)
    tot = {"states": 0, "transitions": 0, "complete": 0, "distinct_outcomes": 0, "accepted": 0, "rejected": 0}
    for r in pmap(run_partition, jobs):
        run.merge(r)
        for k in tot:
            tot[k] += r["stats"][k]
    c = run.counters
    cov = {
        "states": tot["states"], "transitions": tot["transitions"], "traces_validated_against_impl": tot["complete"],
        "evaluations": c.get("state_comparisons", 0), "distinct_nontrivial": c.get("fills_checked", 0),
        "rule": f"{len(jobs)} order books (0-3 levels per side, sizes {SIZES}, on / next to the mark) x all sequences of <= {depth} events with <= "
                f"{max_dev} deviations; events: buy / sell x amounts {amounts} x (market, limit at level 0/1 in token or USD, caps 1.011 / 1.5 / 3), a second "
                "instrument, an unknown instrument, refresh, deposit, withdraw; non-trivial = accepted trades whose fills were compared",
        "accepted": tot["accepted"], "rejected": tot["rejected"], "books": len(jobs),
        "exhaustive": True, "completed_bound": {"depth": depth, "deviations": max_dev, "books": len(jobs)},
    }
    return run.finish(cov, ["books satisfy bids <= mark <= asks, sorted best-first as Deribit delivers them",
                            "amount rounding: below 1 contract is a rejection, otherwise ROUND_HALF_UP to whole contracts (ETH)",
                            "an order that the visible book can fill exactly, with cash / holding sufficient, is expected to be accepted",
                            "a level exactly on mark x cap may count as inside or outside the cap, but fills, cash and position must agree with one reading "
                            "(dyadic books put levels exactly on the cap)",
                            "cheap books (premium below 0.0024) make the 12.5 % fee cap bind; deep books have neighbouring levels within 0.1 % of each other"])


def replay(run: Run, path):
    data = json.load(open(path))
    case = data["case"]
    book = (tuple(case["book"][0]), tuple(case["book"][1]))
    world = make_world(book, case.get("touch", False))
    part = Part()
    orc = Oracle(part, world, book, case.get("touch", False))
    ctx = world.build()
    alph = alphabet(world, BTC_AMOUNTS if case.get("touch") == "btc" else AMOUNTS)
    hist = case["history"]
    for i, lab in enumerate(hist):
        ops = {o.label: o for o in alph(ctx)}
        pre = ctx.raw()
        snap = ctx.snapshot()
        out = kit.apply(ctx, ops[lab])
        print("call:", lab, "ok" if out.ok else out.error)
        orc.on_transition(ctx, hist[:i + 1], ops[lab], pre, snap, out)
    for sig, v in part.violations.items():
        print("reproduced:", sig, v[0], v[2])
    print("REPLAY", "violations" if part.violations else "clean")
    return 1 if part.violations else 0
