"""C14 — Squeeth vaults: 150 % rule at the 7-bar geometric TWAP, liquidation iff below 1.5x, liquidation amounts.

Explicit-state exploration on the real SqueethMarket + its oSQTH/WETH UniLpMarket over synthetic price / norm-factor
paths (flat, small step, big step, ramps, mark != index).  Events: open_deposit_mint with the mint placed relative to
the analytic 1.5x frontier, deposit, burn_and_withdraw with the withdrawal placed relative to the frontier, LP
position in / out of the vault, LP creation, and BAR ADVANCE (which runs the real update() = liquidation).  Every
accepted operation and every bar end is judged against a reference computed in Fractions with a 60-digit TWAP."""
from __future__ import annotations

import json
from decimal import Decimal
from fractions import Fraction

from mc.engine.core import Part, Run, pmap
from mc.worlds import kit
from mc.worlds.kit import F, Op

LEVEL = "model_checking"
TOL = Fraction(1, 10**9)       # the implementation's TWAP is float arithmetic
MARGIN = Fraction(1, 10**7)    # verdicts closer than this to a frontier are not judged
N = 13
START = 7


def scenarios():
    """name -> (ETH path, kind, oSQTH/ETH mark multiplier path or None, bar minutes)"""
    flat = [Decimal(2000)] * N

    def step(f, at=8):
        return [Decimal(2000) if i < at else Decimal(2000) * Decimal(str(f)) for i in range(N)]
    return {
        "flat": (flat, "eq", None, 1),
        "step+2%": (step("1.02"), "eq", None, 1),
        "step+30%": (step("1.3"), "eq", None, 1),
        "step+150%": (step("2.5"), "eq", None, 1),
        "ramp+4%/bar": ([Decimal(2000) * Decimal("1.04") ** max(0, i - 6) for i in range(N)], "eq", None, 1),
        "spike-then-back": ([Decimal(2000) if i != 8 else Decimal(5200) for i in range(N)], "eq", None, 1),
        "ne-step+30%": (step("1.3"), "ne", None, 1),
        "down-20%": (step("0.8"), "eq", None, 1),
        # the pool's oSQTH/ETH mark jumps x2.5 with ETH +40%: liquidation pays at a mark far above the index, vaults end up under water
        "mark-x2.5": (step("1.4"), "eq", [1 if i < 8 else 2.5 for i in range(N)], 1),
        # oSQTH mark falls to 0.4 x while ETH rises 40%: an in-range LP position ends up all in oSQTH, LP-only vaults pay the redemption bounty from nothing
        "mark-x0.4": (step("1.4"), "eq", [1 if i < 8 else 0.4 for i in range(N)], 1),
        "mark-x1.6-ramp": ([Decimal(2000) * Decimal("1.06") ** max(0, i - 6) for i in range(N)], "eq", [1.0 if i < 8 else 1.6 for i in range(N)], 1),
        # five-minute bars (data resampled by the markets' own _resample): the seven-minute window holds two rows, not seven
        "5min-ramp+3%": ([Decimal(2000) * Decimal("1.03") ** max(0, i - 3) for i in range(N)], "eq", None, 5),
        "5min-step+30%": (step("1.3", at=5), "eq", None, 5),
        # oSQTH trades at a constant 50% premium to its index (norm factor scaled down): liquidations pay out at 1.1 x a mark far above
        # the index, so the dust rule and the cap at the vault's collateral both come into play on small vaults
        "premium1.5-ramp+4%": ([Decimal(2000) * Decimal("1.04") ** max(0, i - 6) for i in range(N)], "eq", None, 1, Fraction(2, 3)),
        "premium2.2-step+30%": (step("1.3"), "eq", None, 1, Fraction(5, 11)),
        # ETH flat, oSQTH at a 50% premium whose mark then falls 20% through the LP range: the position ends up all in oSQTH bought above the index, so
        # LP collateral loses value without any oracle move; an LP-only vault (no ETH) has to pay the redemption bounty
        "premium1.5-mark-x0.8": (flat, "eq", [1 if i < 8 else 0.8 for i in range(N)], 1, Fraction(2, 3)),
    }


def make_world(scn, start=START):
    import math

    import pandas as pd
    from demeter._typing import USD
    from mc.worlds import squeeth as sq
    from mc.worlds import uni
    from mc.worlds.catalog import World
    from mc.worlds.kit import Ctx
    from demeter.squeeth.helper import get_price_from_data

    osqth_heavy = scn.endswith("|osqth-heavy-lp")
    no_osqth = scn.endswith("|no-osqth")  # the wallet has never held oSQTH (no entry at all): the first mint creates the entry
    spec = scenarios()[scn.split("|")[0]]
    eth_bars, kind, mark_mult, bar_minutes = spec[:4]
    nf_scale = spec[4] if len(spec) > 4 else Fraction(1)
    p = sq.pool()
    n_raw = N * bar_minutes
    eth = [eth_bars[i // bar_minutes] for i in range(n_raw)]
    if kind == "eq":
        ticks = [sq.TICK0] * n_raw
    else:
        ticks = [sq.TICK0 + 60 * (((i // bar_minutes) * 7) % 5 - 2) for i in range(n_raw)]
    if mark_mult is not None:
        # price of oSQTH in ETH is 1.0001^-tick: a multiplier m moves the tick by -ln(m)/ln(1.0001), kept on the spacing grid
        ticks = [t - 60 * round(math.log(float(mark_mult[i // bar_minutes])) / math.log(1.0001) / 60) for i, t in enumerate(ticks)]
    raw = uni.raw_frame(ticks, 2 * 10**18, 15 * 10**18, 5 * 10**21, open_tick=ticks[0])
    udata = uni.prepared(raw, p)
    osqth_eth = list(udata["price"])
    if kind == "eq":
        # mark = index x (1 / nf_scale) while ETH is at 2000 and the mark has not jumped
        nf = [osqth_eth[0] * Decimal(10**4) / Decimal(2000) * Decimal(nf_scale.numerator) / Decimal(nf_scale.denominator)] * n_raw
    else:
        nf = [Decimal("0.46") - Decimal("0.0003") * (i // bar_minutes) for i in range(n_raw)]
    sdata = pd.DataFrame(index=udata.index, data={"norm_factor": nf, "WETH": eth, "OSQTH": osqth_eth})
    prices = get_price_from_data(sdata).map(lambda y: y if isinstance(y, Decimal) else Decimal(str(y)))
    prices["USD"] = Decimal(1)
    if bar_minutes > 1:
        um0, sm0 = sq.make_markets(udata, sdata)
        um0._resample(f"{bar_minutes}min")  # repository code, as Actuator.switch_interval applies it
        sm0._resample(f"{bar_minutes}min")
        udata, sdata = um0.data, sm0.data
        prices = prices.resample(f"{bar_minutes}min").first()
    ranges = {"in": (sq.TICK0 - 1200, sq.TICK0 + 1200), "lo": (sq.TICK0 - 6000, sq.TICK0 - 3000), "hi": (sq.TICK0 + 3000, sq.TICK0 + 6000)}
    if osqth_heavy:
        # the pool tick sits just below the range's upper end: the position holds mostly token1 = oSQTH, so a vault collateralised by it can hold more oSQTH than
        # it owes and still fall below 1.5x when the ETH part of its collateral loses weight against the index
        ranges["in"] = (sq.TICK0 - 2400, sq.TICK0 + 60)
    if bar_minutes > 1:
        start = min(start, 3)

    def build():
        um, sm = sq.make_markets(udata, sdata)
        ua = sq.SlimUniAdapter(um, ranges)
        sa = sq.SqueethAdapter(sm, ua, sdata)
        ctx = Ctx(f"squeeth[{scn}]", prices, USD, [ua, sa], [(sq.WETH, 40)] + ([] if no_osqth else [(sq.OSQTH, 30)]), sdata.index)
        ctx.begin_bar(start)
        ctx.bar_log = []
        # part of the canonical state: whether a historical time-weighted price has been asked for in this bar (a read that leaves no trace in
        # vaults or wallet; without this the state after the read would be merged with the state before it and never be expanded)
        ctx.model = {"historical_read_in_bar": None}
        ctx.canon_model = True
        return ctx

    w = World(f"squeeth[{scn}]", build, ((),), {"squni.data": udata, "squeeth.data": sdata, "prices": prices})
    w.sq = sq
    w.ranges = ranges
    return w


def dec(fr: Fraction) -> Decimal:
    return Decimal(fr.numerator) / Decimal(fr.denominator)


def vault_ref(sa, v):
    """(effective collateral in ETH, debt in ETH, weth in LP, oSQTH in LP) exact, with the 60-digit TWAP."""
    eff = sa.effective_collateral(v)
    debt = sa.debt_in_eth(v)
    lp = sa.lp_amounts(v.uni_nft_id) if v.uni_nft_id is not None else (Fraction(0), Fraction(0))
    return eff, debt, lp[0], lp[1]


def alphabet(world):
    sq = world.sq
    from demeter.squeeth import VaultKey
    from demeter.uniswap import PositionInfo

    lo, hi = world.ranges["in"]
    POS = PositionInfo(lo, hi)

    def ops(ctx):
        ua, sa = ctx.adapters
        m, um = sa.market, ua.market
        out = []
        vaults = sorted(m.vault.keys(), key=lambda k: k.id)
        free_lp = POS in um._positions and not um._positions[POS].transferred and um._positions[POS].liquidity > 0

        def note(kind, **kw):
            ctx.last = dict(kind=kind, **kw)

        def mint_room(vk, extra_eth, with_pos):
            coll = Fraction(extra_eth)
            short = Fraction(0)
            if vk is not None:
                coll += sa.effective_collateral(m.vault[vk])
                short = F(m.vault[vk].osqth_short_amount)
            if with_pos:
                weth, osq = sa.lp_amounts(POS)
                coll += weth + osq * sa.index_price_in_eth()
            return coll / Fraction(3, 2) / sa.index_price_in_eth() - short

        if ctx.bar + 1 < len(ctx.index):
            out.append(Op("advance", lambda c: advance(c, world), False, "advance"))
        if not vaults or (len(vaults) < 2):
            for e in ("1", "0.49", "0.51", "3", "0"):
                for mc, f in (("half", Fraction(1, 2)), ("p90", Fraction(9, 10)), ("near", 1 - Fraction(1, 10**4)), ("beyond", 1 + Fraction(1, 10**4))):
                    for lp in ((False, True) if free_lp else (False,)):
                        if e in ("0.49", "0.51", "3") and mc not in ("near", "p90"):
                            continue
                        if (lp and e not in ("1", "0")) or (e == "0" and (not lp or mc not in ("near", "p90"))):
                            continue

                        def odm(c, e=e, f=f, lp=lp):
                            room = mint_room(None, Decimal(e), lp)
                            mint = dec(room * f)
                            note("mint", eth=Decimal(e), mint=mint, vault=None, lp=lp)
                            return m.open_deposit_mint(Decimal(e), mint, None, POS if lp else None)
                        out.append(Op(f"odm[new,{e},{mc},{'lp' if lp else 'nolp'}]", odm, not (e == "1" and mc in ("half", "p90") and not lp), "mint"))
        if free_lp and len(vaults) < 2:
            def odm_small(c):
                # a quarter ETH covers 1.5x of a debt worth a tenth of an ETH on its own; whether the vault reaches the 0.5 ETH minimum depends on its LP position
                mint = dec(Fraction(1, 10) / sa.index_price_in_eth())
                note("mint", eth=Decimal("0.25"), mint=mint, vault=None, lp=True)
                return m.open_deposit_mint(Decimal("0.25"), mint, None, POS)
            out.append(Op("odm[new,0.25,debt0.1eth,lp]", odm_small, True, "mint"))
        for i, vk in enumerate(vaults):
            v = m.vault[vk]
            for mc, f in (("near", 1 - Fraction(1, 10**4)), ("beyond", 1 + Fraction(1, 10**4)), ("half", Fraction(1, 2))):
                def more(c, vk=vk, f=f):
                    room = mint_room(vk, 0, False)
                    mint = dec(room * f) if room > 0 else Decimal("0.01")
                    note("mint", eth=Decimal(0), mint=mint, vault=vk, lp=False)
                    return m.open_deposit_mint(deposit_eth_amount=Decimal(0), osqth_mint_amount=mint, vault_key=vk)  # by name
                out.append(Op(f"odm[v{i},0,{mc}]", more, mc != "half", "mint"))

            def dep(c, vk=vk):
                note("deposit", eth=Decimal(1), vault=vk)
                return m.deposit(vk, Decimal(1))
            out.append(Op(f"deposit[v{i},1]", dep, False, "deposit"))
            for bc, bf in (("third", Fraction(1, 3)), ("all", Fraction(1)), ("over", Fraction(3, 2))):
                def burn(c, vk=vk, bf=bf):
                    amt = m.vault[vk].osqth_short_amount * dec(bf)
                    note("burn", burn=amt, withdraw=Decimal(0), vault=vk)
                    return m.burn_and_withdraw(vk, amt, Decimal(0))
                out.append(Op(f"burn[v{i},{bc}]", burn, bc != "third", "burn"))
            for wc, wf in (("near", 1 - Fraction(1, 10**4)), ("beyond", 1 + Fraction(1, 10**4)), ("half", Fraction(1, 2))):
                def wd(c, vk=vk, wf=wf):
                    vv = m.vault[vk]
                    eff, debt, _, _ = vault_ref(sa, vv)
                    room = min(eff - debt * Fraction(3, 2), eff - Fraction(1, 2)) if vv.osqth_short_amount > 0 else F(vv.collateral_amount)
                    room = min(room, F(vv.collateral_amount))
                    amt = dec(room * wf) if room > 0 else Decimal("0.01")
                    note("withdraw", burn=Decimal(0), withdraw=amt, vault=vk)
                    return m.burn_and_withdraw(vault_key=vk, osqth_burn_amount=Decimal(0), withdraw_eth_amount=amt)  # by name
                out.append(Op(f"withdraw[v{i},{wc}]", wd, wc != "half", "withdraw"))

            def close(c, vk=vk):
                vv = m.vault[vk]
                note("close", burn=vv.osqth_short_amount, withdraw=vv.collateral_amount, vault=vk)
                return m.burn_and_withdraw(vk, vv.osqth_short_amount, vv.collateral_amount)
            out.append(Op(f"close[v{i}]", close, True, "burn"))
            if free_lp and v.uni_nft_id is None:
                def dlp(c, vk=vk):
                    note("deposit_lp", vault=vk)
                    return m.deposit_uni_position(vk, POS)
                out.append(Op(f"deposit_lp[v{i}]", dlp, False, "deposit_lp"))
            if v.uni_nft_id is not None:
                def wlp(c, vk=vk):
                    note("withdraw_lp", vault=vk)
                    return m.withdraw_uni_position(vk, m.vault[vk].uni_nft_id)
                out.append(Op(f"withdraw_lp[v{i}]", wlp, False, "withdraw_lp"))
        if ctx.bar >= 3:
            def ask_old_twap(c):
                # a strategy / indicator asks for a HISTORICAL time-weighted price (the documented `now` argument); this is a read and changes nothing
                note("read")
                ctx.model["historical_read_in_bar"] = ctx.bar
                from demeter.squeeth.market import WETH as _W, oSQTH as _O
                old = ctx.index[max(ctx.bar - 9, 0)].to_pydatetime()
                return (m.get_twap_price(_W, now=old), m.get_twap_price(_O, now=old))
            out.append(Op("twap_at[old]", ask_old_twap, True, "read"))
        if POS not in um._positions:
            def addlp(c):
                note("add_lp")
                return um.add_liquidity_by_tick(lo, hi, Decimal(3), Decimal(25))
            out.append(Op("squni.add[in]", addlp, False, "add_lp"))

            def addlp_tiny(c):
                note("add_lp")
                return um.add_liquidity_by_tick(lo, hi, Decimal("0.4"), Decimal(25))
            out.append(Op("squni.add[in,tiny]", addlp_tiny, True, "add_lp"))

            def addlp_big(c):
                note("add_lp")
                return um.add_liquidity_by_tick(lo, hi, Decimal(20), Decimal(25))
            out.append(Op("squni.add[in,big]", addlp_big, True, "add_lp"))
        return out
    return ops


def advance(ctx, world):
    """End of bar with the real update(), recorded for the oracle, then the next bar begins."""
    ua, sa = ctx.adapters
    m = sa.market
    rec = {"bar": ctx.bar, "raised": None}
    real_update = m.update

    def bracketed_update():
        # the pool market has already accrued this bar's fees (it is updated first); this is the state the vault rule sees
        pre = {}
        for vk, v in m.vault.items():
            eff, debt, w_lp, o_lp = vault_ref(sa, v)
            pre[vk.id] = {"C": F(v.collateral_amount), "S": F(v.osqth_short_amount), "eff": eff, "debt": debt, "w_lp": w_lp, "o_lp": o_lp,
                          "nft": v.uni_nft_id is not None}
        rec.update(pre=pre, idx=sa.index_price_in_eth(), tw_osq=sa.twap_osqth(), wallet=dict(ctx.wallet()), n_actions=len(ctx.actions))
        return real_update()
    m.update = bracketed_update
    try:
        ctx.end_bar()
    except BaseException as e:  # noqa: BLE001
        rec["raised"] = repr(e)[:200]
    finally:
        del m.update
    if "pre" not in rec:
        rec.update(pre={}, idx=Fraction(0), tw_osq=Fraction(0), wallet=dict(ctx.wallet()), n_actions=len(ctx.actions))
    rec["post"] = {vk.id: {"C": F(v.collateral_amount), "S": F(v.osqth_short_amount), "nft": v.uni_nft_id is not None} for vk, v in m.vault.items()}
    rec["wallet_after"] = dict(ctx.wallet())
    rec["actions"] = [type(a).__name__ for a in ctx.actions[rec["n_actions"]:]]
    ctx.last = {"kind": "advance", "rec": rec}
    if rec["raised"] is None:
        ctx.model["historical_read_in_bar"] = None
        ctx.begin_bar(ctx.bar + 1)


def near(a: Fraction, b: Fraction, tol=TOL, abs_=Fraction(1, 10**15)):
    return abs(a - b) <= abs_ + tol * max(abs(a), abs(b))


class Oracle:
    def __init__(self, part, world, scn):
        self.part = part
        self.world = world
        self.scn = scn

    def on_state(self, ctx, hist):
        self.part.sample({"scenario": self.scn, "history": list(hist)}, every=499)

    def case(self, hist):
        return {"scenario": self.scn, "history": list(hist)}

    def on_transition(self, ctx, hist, op, pre_raw, snap, out):
        part = self.part
        part.count("transitions")
        ua, sa = ctx.adapters
        m = sa.market
        info = getattr(ctx, "last", {}) or {}
        if op.kind == "advance":
            self.judge_bar(ctx, hist, info.get("rec"))
            return
        if op.kind == "add_lp":
            return
        if op.kind == "read":
            if not out.ok:
                part.violation("C14|read|exception", "asking for a historical time-weighted price raised", self.case(hist), {"error": out.error})
            elif ctx.raw() != pre_raw:
                part.violation("C14|read|changed-state", "asking for a historical time-weighted price changed vaults or wallet", self.case(hist))
            return
        part.count(f"op.{op.kind}.{'acc' if out.ok else 'rej'}")
        post_raw = ctx.raw()
        if not out.ok:
            # a refused vault operation moves nothing between wallet and vault (C04 judges refused calls of every market in depth)
            a, b = dict(pre_raw), dict(post_raw)
            for r in (a, b):
                r.pop("actions", None)
                r["wallet"] = {k: v for k, v in r["wallet"].items() if v != 0}
            if a != b:
                part.violation(f"C14|refused-but-moved|{op.kind}", "a refused vault operation left oSQTH / ETH moved between wallet and vault", self.case(hist),
                               {"wallet_before": pre_raw["wallet"], "wallet_after": post_raw["wallet"], "error": out.error})
            return
        negs = ctx.negatives()
        if negs:
            part.violation(f"C14|negative|{op.kind}", "a vault or wallet amount went negative", self.case(hist), {"fields": negs})
        vk = info.get("vault")
        if vk is None:
            new = set(post_raw["squeeth"]["vaults"]) - set(pre_raw["squeeth"]["vaults"])
            vid = sorted(new)[0] if new else None
        else:
            vid = str(vk.id)
        if vid is None or vid not in post_raw["squeeth"]["vaults"]:
            return
        before = pre_raw["squeeth"]["vaults"].get(vid, {"collateral": Decimal(0), "short": Decimal(0), "nft": None})
        after = post_raw["squeeth"]["vaults"][vid]
        w0, w1 = pre_raw["wallet"], post_raw["wallet"]
        d_weth = w1.get("WETH", Decimal(0)) - w0.get("WETH", Decimal(0))
        d_osq = w1.get("OSQTH", Decimal(0)) - w0.get("OSQTH", Decimal(0))
        d_coll = after["collateral"] - before["collateral"]
        d_short = after["short"] - before["short"]
        # exact movement between wallet and vault
        kind = info.get("kind")
        exp = None
        if kind == "mint":
            exp = (info["eth"], info["mint"])
        elif kind == "deposit":
            exp = (info["eth"], Decimal(0))
        elif kind in ("burn", "withdraw", "close"):
            exp = (-min(info["withdraw"], before["collateral"]), -min(info["burn"], before["short"]))
        if exp is not None:
            part.count("movement_checks")
            def same(a, b):
                return abs(F(a) - F(b)) <= Fraction(1, 10**30) * max(abs(F(a)), abs(F(b)), 100)  # sums are rounded to 35 digits
            if not (same(d_coll, exp[0]) and same(d_short, exp[1]) and same(d_weth, -exp[0]) and same(d_osq, exp[1])):
                part.violation(f"C14|movement|{kind}", "an accepted vault operation did not move exactly the stated ETH / oSQTH between wallet and vault",
                               self.case(hist), {"expected": [str(exp[0]), str(exp[1])], "vault_delta": [str(d_coll), str(d_short)],
                                                 "wallet_delta": [str(d_weth), str(d_osq)]})
        if kind in ("deposit_lp", "withdraw_lp") and (d_coll != 0 or d_short != 0 or d_weth != 0 or d_osq != 0):
            part.violation(f"C14|movement|{kind}", "moving an LP position into / out of a vault moved ETH or oSQTH", self.case(hist))
        # safety after accepted mint / collateral withdrawal / LP withdrawal
        if kind in ("mint", "withdraw", "close", "withdraw_lp", "burn"):
            v = m.vault[[k for k in m.vault if str(k.id) == vid][0]]
            if v.osqth_short_amount > 0:
                eff, debt, _, _ = vault_ref(sa, v)
                part.count("safety_checks")
                if eff * 2 < debt * 3 * (1 - MARGIN):
                    part.violation(f"C14|accepted-unsafe|{kind}", "an accepted operation left a vault with debt below 1.5x collateral at the 7-bar TWAP",
                                   self.case(hist), {"effective_collateral_eth": float(eff), "debt_eth": float(debt), "ratio": float(eff / debt)})
                if eff < Fraction(1, 2) * (1 - MARGIN):
                    part.violation(f"C14|accepted-dust|{kind}", "an accepted operation left a vault with debt below 0.5 ETH collateral", self.case(hist),
                                   {"effective_collateral_eth": float(eff)})
                # the helper equals its definition
                try:
                    ratio, liq = m.get_collat_ratio_and_liq_price([k for k in m.vault if str(k.id) == vid][0])
                    if not near(F(ratio), eff / debt):
                        part.violation("C14|helper|collat_ratio", "get_collat_ratio_and_liq_price differs from collateral / debt at the TWAP", self.case(hist),
                                       {"helper": float(ratio), "definition": float(eff / debt)})
                except kit.REJECTIONS as e:
                    part.violation("C14|helper|exception", "get_collat_ratio_and_liq_price raised", self.case(hist), {"error": repr(e)})

    # ---- bar end: liquidation iff below 1.5x, amounts ----------------------------------------------------------------------------
    def judge_bar(self, ctx, hist, rec):
        part = self.part
        part.count("bars")
        if rec is None:
            return
        if rec["raised"]:
            part.violation("C14|update|exception", "Market.update() raised at bar end", self.case(hist), {"error": rec["raised"]})
            return
        idx, tw = rec["idx"], rec["tw_osq"]
        exp_wallet_osq = F(rec["wallet"].get("OSQTH", 0))
        for vid, p in rec["pre"].items():
            q = rec["post"][vid]
            unsafe = p["S"] > 0 and p["eff"] * 2 < p["debt"] * 3
            if p["S"] > 0 and abs(p["eff"] * 2 - p["debt"] * 3) <= MARGIN * p["debt"] * 3:
                part.count("bars_on_the_frontier_not_judged")
                continue
            changed = (q["C"], q["S"], q["nft"]) != (p["C"], p["S"], p["nft"])
            if not unsafe:
                part.count("vault_bars_safe")
                if changed:
                    part.violation("C14|iff|liquidated-while-safe", "a vault at or above 1.5x at bar end was liquidated / reduced", self.case(hist),
                                   {"bar": rec["bar"], "ratio": None if p["debt"] == 0 else float(p["eff"] / p["debt"]), "actions": rec["actions"]})
                continue
            part.count("vault_bars_unsafe")
            if not changed:
                part.violation("C14|iff|not-liquidated-below-1.5", "a vault below 1.5x at bar end was not liquidated", self.case(hist),
                               {"bar": rec["bar"], "ratio": float(p["eff"] / p["debt"]), "actions": rec["actions"]})
                continue
            # reference liquidation
            C, S = p["C"], p["S"]
            detail = {"bar": rec["bar"], "ratio": float(p["eff"] / p["debt"]), "pre": {k: (float(v) if isinstance(v, Fraction) else v) for k, v in p.items()},
                      "post": {k: (float(v) if isinstance(v, Fraction) else v) for k, v in q.items()}, "actions": rec["actions"]}
            done = False
            if p["nft"]:
                burn = min(p["o_lp"], S)
                exp_wallet_osq += p["o_lp"] - burn
                bounty = min((p["o_lp"] * tw + p["w_lp"]) / 50, C + p["w_lp"])  # paid out of the vault's ETH: never more than it holds
                S = S - burn
                C = C + p["w_lp"] - bounty
                part.count("lp_redeemed")
                if p["o_lp"] > p["S"]:
                    part.count("lp_redeemed_with_more_osqth_than_owed")
                if S == 0 or C * 2 >= S * idx * 3:
                    if S > 0 and abs(C * 2 - S * idx * 3) <= MARGIN * S * idx * 3:
                        part.count("bars_on_the_frontier_not_judged")
                        continue
                    done = True
                else:
                    C = C + bounty
            if not done:
                half = S / 2
                pay = half * tw * Fraction(11, 10)
                amt = half
                if C > pay and C - pay < Fraction(1, 2):
                    amt = S
                    pay = S * tw * Fraction(11, 10)
                if pay > C:
                    amt = S
                    pay = C
                    part.count("liquidations_capped_at_collateral")
                S2, C2 = S - amt, C - pay
                part.count("liquidations_full" if amt == S else "liquidations_half")
            else:
                S2, C2 = S, C
                part.count("saved_by_lp")
            tol = Fraction(1, 10**8)  # float TWAP (oSQTH) and integer rounding of the pool's burn
            if not near(q["S"], S2, tol) or not near(q["C"], C2, tol) or q["nft"]:
                part.violation(f"C14|amounts|{'lp' if p['nft'] else 'nolp'}", "liquidation amounts differ from the rule (LP first with 2% bounty, then half / all of "
                               "the debt against debt x TWAP(oSQTH) x 1.1 capped at the collateral)", self.case(hist),
                               dict(detail, expected={"collateral": float(C2), "short": float(S2)}))
            if q["C"] < 0 or q["S"] < 0:
                part.violation("C14|negative|liquidation", "liquidation left a negative vault amount", self.case(hist), detail)
        wa = rec["wallet_after"]
        if wa.get("WETH", 0) != rec["wallet"].get("WETH", 0) or not near(F(wa.get("OSQTH", 0)), exp_wallet_osq, Fraction(1, 10**10)):
            part.violation("C14|wallet|bar-end", "the wallet changed at bar end by something other than the oSQTH excess of a redeemed LP position",
                           self.case(hist), {"before": rec["wallet"], "after": wa, "expected_osqth": float(exp_wallet_osq)})

    def finish(self):
        pass


# seeded non-initial states (label prefixes, replayed on the real objects): an LP position, vaults with LP collateral near / off the frontier
ROOTS = ((), ("squni.add[in]",), ("squni.add[in,tiny]",), ("squni.add[in]", "odm[new,1,p90,lp]"), ("squni.add[in]", "odm[new,1,near,lp]"), ("squni.add[in,big]", "odm[new,0,p90,lp]"), ("odm[new,1,near,nolp]",),
         ("odm[new,3,p90,nolp]", "odm[new,0.51,near,nolp]"))


def run_partition(args):
    seed, scn, depth, max_dev, first, start, root = args
    world = make_world(scn, start)
    part = Part(seed)
    orc = Oracle(part, world, scn if start == START else f"{scn}@{start}")
    orc.start = start
    orc.root = list(root)
    stats = kit.explore(world.build, alphabet(world), depth + len(root), max_dev, orc.on_transition, on_state=orc.on_state, roots=(tuple(root),),
                        first=first)
    r = part.result()
    r["stats"] = stats
    return r


def main(run: Run):
    depth = run.pick(3, 4)
    max_dev = run.pick(2, 3)
    scns = list(scenarios()) if run.thorough else ["flat", "step+30%", "step+150%", "ne-step+30%", "mark-x2.5", "premium1.5-mark-x0.8", "5min-ramp+3%", "premium1.5-ramp+4%"]
    scns = scns + ["flat|no-osqth", "step+30%|osqth-heavy-lp", "step+150%|osqth-heavy-lp"]
    jobs = []
    skipped, accepted_roots = [], set()
    for scn in scns:
        extra = {"step+30%": (START, 2), "mark-x2.5": (START, 10)}
        if run.thorough:
            extra.update({"flat": (START, 2), "mark-x0.4": (START, 10)})
        for start in extra.get(scn, (START,)):
            world = make_world(scn, start)
            for root in ROOTS:
                if scn.endswith("|no-osqth") and root and root[0].startswith("squni."):
                    continue  # no oSQTH to put into a pool position
                if root == ("squni.add[in,tiny]",) and scn not in ("flat", "ne-step+30%"):
                    continue  # the small-vault corner is explored in two scenarios
                if scn.endswith("|osqth-heavy-lp") and not (len(root) == 2 and root[1].endswith(",lp]")):
                    continue  # this variant is about vaults that hold the position
                ctx, outs = kit.replay_history(world.build, alphabet(world), root)
                if not all(o.ok for o in outs):
                    skipped.append((scn, start, root))  # e.g. an LP-only vault opened when the position is worth less than the 0.5 ETH minimum
                    continue
                accepted_roots.add(root)
                labels = [o.label for o in alphabet(world)(ctx)]
                for grp in (labels[0::3], labels[1::3], labels[2::3]):
                    jobs.append((run.seed, scn, depth, max_dev, frozenset(grp), start, root))
    if accepted_roots != set(ROOTS) or len(skipped) > 2:
        raise RuntimeError(f"seeded roots rejected: {skipped}")
    jobs = run.rotate(jobs)
    tot = {"states": 0, "transitions": 0, "complete": 0, "distinct_outcomes": 0}
    for r in pmap(run_partition, jobs):
        run.merge(r)
        for k in tot:
            tot[k] += r["stats"][k]
    c = run.counters
    cov = {
        "states": tot["states"], "transitions": tot["transitions"], "traces_validated_against_impl": tot["complete"],
        "evaluations": c.get("safety_checks", 0) + c.get("movement_checks", 0) + c.get("vault_bars_safe", 0) + c.get("vault_bars_unsafe", 0),
        "distinct_nontrivial": c.get("vault_bars_unsafe", 0) + c.get("safety_checks", 0),
        "rule": f"{len(scns)} price/norm-factor scenarios x all event sequences of length <= {depth} with <= {max_dev} deviations (events: mint relative to "
                "the 1.5x frontier, deposit, burn, withdraw relative to the frontier, close, LP in/out, LP creation, bar advance with the real update()); "
                "non-trivial = a vault-bar below 1.5x or a safety check of an accepted operation on a vault with debt",
        "vault_bars_unsafe": c.get("vault_bars_unsafe", 0), "vault_bars_safe": c.get("vault_bars_safe", 0),
        "liquidations_half": c.get("liquidations_half", 0), "liquidations_full": c.get("liquidations_full", 0),
        "liquidations_capped_at_collateral": c.get("liquidations_capped_at_collateral", 0), "lp_redeemed": c.get("lp_redeemed", 0), "saved_by_lp": c.get("saved_by_lp", 0),
        "exhaustive": True, "completed_bound": {"depth_after_seed": depth, "deviations": max_dev, "scenarios": len(scns), "seeded_roots": len(ROOTS)},
    }
    return run.finish(cov, ["reference TWAP = geometric mean of the trailing 7 rows ending at the current bar, 60 digits; implementation TWAP is float: 1e-9 "
                            "relative tolerance, and verdicts within 1e-7 of the 1.5x frontier are not judged",
                            "the reduce-debt bounty is 2% of (withdrawn ETH + withdrawn oSQTH x TWAP(oSQTH)), added back when the vault is liquidated anyway "
                            "(as in the Squeeth controller)",
                            "rejected operations are C04's subject and not judged here"])


def replay(run: Run, path):
    data = json.load(open(path))
    case = data["case"]
    scn = case["scenario"]
    start = START
    if "@" in scn:
        scn, s = scn.split("@")
        start = int(s)
    world = make_world(scn, start)
    part = Part()
    orc = Oracle(part, world, case["scenario"])
    ctx = world.build()
    alph = alphabet(world)
    hist = case["history"]
    for i, lab in enumerate(hist):
        ops = {o.label: o for o in alph(ctx)}
        pre_raw = ctx.raw()
        snap = ctx.snapshot()
        out = kit.apply(ctx, ops[lab])
        orc.on_transition(ctx, hist[:i + 1], ops[lab], pre_raw, snap, out)
    for sig, v in part.violations.items():
        print("reproduced:", sig, v[0], v[2])
    print("REPLAY", "violations" if part.violations else "clean")
    return 1 if part.violations else 0
