"""C18 — time triggers fire on exactly the bars their specification denotes.

Every trigger kind x parameter placement relative to the bar grid x bar grid (start, interval, length),
each evaluated through the REAL Actuator.run loop (including trigger retirement), compared with the
denotation computed from the specification and the observed bar grid.
"""
from __future__ import annotations

import itertools
import json
from datetime import datetime, timedelta

from mc.engine.core import Part, Run, chunks, pmap

LEVEL = "model_checking"


# ---- trigger specifications (plain data, so a case can be replayed from JSON) ----------------------
def denote(spec, bars):
    """Set of bar timestamps on which the trigger must fire, from the specification alone."""
    kind = spec["kind"]
    if not bars:
        return set()
    b0 = bars[0]

    def fl(t):  # times are meant to the minute: seconds and fractions of a second are dropped
        return t.replace(second=0, microsecond=0)
    if kind == "at":
        return {b for b in bars if b == fl(spec["time"])}
    if kind == "ats":
        return {b for b in bars if b in [fl(t) for t in spec["times"]]}
    if kind == "range":
        return {b for b in bars if fl(spec["start"]) <= b < fl(spec["end"])}
    if kind == "ranges":
        return {b for b in bars if any(fl(s) <= b < fl(e) for s, e in spec["ranges"])}
    if kind in ("period", "periods"):
        deltas = [spec["delta"]] if kind == "period" else spec["deltas"]
        out = set()
        if spec["immediate"]:
            out.add(b0)
        for d in deltas:
            t = b0 + spec["pending"] + d
            while t <= bars[-1]:
                if t in bars:
                    out.add(t)
                t += d
        return out
    raise ValueError(kind)


def build(spec, do):
    from demeter.strategy.trigger import (AtTimeTrigger, AtTimesTrigger, PeriodsTrigger, PeriodTrigger, TimeRange,
                                          TimeRangesTrigger, TimeRangeTrigger)

    kw = spec.get("kwargs", {})
    kind = spec["kind"]
    if kind == "at":
        return AtTimeTrigger(spec["time"], do, **kw)
    # A trigger's specification is what it was GIVEN: the caller goes on using its own objects afterwards (the same TimeRange shifted by a day for the next
    # registration, the same list of times cleared and refilled for the next strategy). After construction the caller's objects are therefore changed here.
    far = timedelta(days=400)
    if kind == "ats":
        given = list(spec["times"])
        t = AtTimesTrigger(given, do, **kw)
        given.clear()
        return t
    if kind == "range":
        given = TimeRange(spec["start"], spec["end"])
        t = TimeRangeTrigger(given, do, **kw)
        given.start, given.end = given.start + far, given.end + far
        return t
    if kind == "ranges":
        given = [TimeRange(s, e) for s, e in spec["ranges"]]
        t = TimeRangesTrigger(given, do, **kw)
        for g in given:
            g.start, g.end = g.start + far, g.end + far
        given.clear()
        return t
    if kind == "period":
        return PeriodTrigger(spec["delta"], do, trigger_immediately=spec["immediate"], pending=spec["pending"], **kw)
    if kind == "periods":
        # (PeriodsTrigger keeps the caller's list of periods as it is today: what happens when the caller changes that list afterwards is not judged)
        return PeriodsTrigger(list(spec["deltas"]), do, trigger_immediately=spec["immediate"], pending=spec["pending"], **kw)
    raise ValueError(kind)


def spec_json(spec):
    def conv(v):
        if isinstance(v, datetime):
            return {"dt": v.isoformat()}
        if isinstance(v, timedelta):
            return {"td": v.total_seconds()}
        if isinstance(v, (list, tuple)):
            return [conv(x) for x in v]
        if isinstance(v, dict):
            return {k: conv(x) for k, x in v.items()}
        return v

    return conv(spec)


def spec_unjson(j):
    def conv(v):
        if isinstance(v, dict) and set(v) == {"dt"}:
            return datetime.fromisoformat(v["dt"])
        if isinstance(v, dict) and set(v) == {"td"}:
            return timedelta(seconds=v["td"])
        if isinstance(v, list):
            return [conv(x) for x in v]
        if isinstance(v, dict):
            return {k: conv(x) for k, x in v.items()}
        return v

    s = conv(j)
    if "ranges" in s:
        s["ranges"] = [tuple(r) for r in s["ranges"]]
    return s


# ---- one execution through the real loop ----------------------------------------------------------
def run_case(grid, specs):
    """grid = (start_minute, interval_minutes, raw_len). Returns (bars, fired per trigger, present-after-bar per trigger, error)."""
    from mc.worlds import base, uni
    from mc.worlds.base import Scripted, make_actuator, run_quiet

    start_minute, interval, raw_len = grid[:3]
    pool = uni.pool_q0()
    raw = uni.raw_frame([200000] * raw_len, 0, 0, 10**18, start=base.T0 + timedelta(minutes=start_minute))
    market = uni.make_market(pool, uni.prepared(raw, pool))
    markets, assets, prices = [market], [(uni.USDC, 1000), (uni.WETH, 1)], market.get_price_from_data()
    if len(grid) > 3 and grid[3] == "hourly":
        # an hourly option market beside the minutely pool: it is closed on every bar that is not on the hour, which must not matter to the triggers
        from decimal import Decimal
        from mc.worlds import deribit as db

        odata = db.std_frame(2)
        om = db.make_market(odata)
        up = prices[0].map(lambda y: Decimal(str(y)))
        op = db.price_frame(odata).loc[up.index[0]:up.index[-1]].copy()
        for c in up.columns:
            op[c] = up[c]
        markets, assets, prices = [market, om], assets + [(db.ETH, 3)], op
    fired = [[] for _ in specs]
    present = [[] for _ in specs]
    trigs = []

    holder = {}
    chained_at = {}

    def mk_do(i):
        def do(snapshot, **kw):
            fired[i].append((snapshot.timestamp, dict(kw)))
            # a trigger's action may itself register a follow-up trigger (first firing only)
            for k, sk in enumerate(specs):
                if sk.get("register_by") == i and trigs[k] is None:
                    chained_at[k] = snapshot.row_id
                    register(holder["strategy"], k)
        return do

    trigs.extend([None] * len(specs))

    def register(strategy, i):
        t = build(specs[i], mk_do(i))
        trigs[i] = t
        strategy.triggers.append(t)

    def init(strategy, _):
        holder["strategy"] = strategy
        for i, s in enumerate(specs):
            if s.get("register_at") is None and s.get("register_by") is None:
                register(strategy, i)

    def late(strategy, snapshot):
        # a strategy may register a trigger while it runs (here from on_bar); it is first evaluated on the following bar
        for i, s in enumerate(specs):
            if s.get("register_at") == snapshot.row_id:
                register(strategy, i)

    def after(strategy, snapshot):
        for i, t in enumerate(trigs):
            present[i].append(None if t is None else any(x is t for x in strategy.triggers))

    st = Scripted({("initialize", -1): [init], ("on_bar", "*"): [late], ("after_bar", "*"): [after]})
    act = make_actuator(markets, assets, st, prices, interval=f"{interval}min")
    err = None
    import logging

    debug = len(grid) > 3 and grid[3] == "debug-log"
    loggers = [logging.getLogger(), logging.getLogger("Actuator")]
    old_levels = [lg.level for lg in loggers]
    sink = logging.NullHandler()
    if debug:
        # a user who turns on debug logging (logging.basicConfig(level=DEBUG)) changes what is printed, not what fires
        for lg in loggers:
            lg.setLevel(logging.DEBUG)
        loggers[1].addHandler(sink)
        loggers[1].propagate = False  # the records go to the null handler only
        saved_handlers = [h for h in loggers[1].handlers if h is not sink]
        for h in saved_handlers:
            loggers[1].removeHandler(h)
        logging.disable(logging.NOTSET)  # (the harness silences the library's logging process-wide; this run has it on, into a null handler)
    try:
        run_quiet(act)
    except Exception as e:  # the loop must not fail because of a time trigger
        err = f"{type(e).__name__}: {e}"
    finally:
        if debug:
            for lg, lv in zip(loggers, old_levels):
                lg.setLevel(lv)
            loggers[1].removeHandler(sink)
            loggers[1].propagate = True
            for h in saved_handlers:
                loggers[1].addHandler(h)
            logging.disable(logging.CRITICAL)
    bars = [t[2] for t in st.trace if t[0] == "before_bar"]
    run_case.chained_at = dict(chained_at)
    FINISHED.append(({"grid": list(grid), "specs": [spec_json(x) for x in specs]}, fired, [len(f) for f in fired]))
    return bars, fired, present, err


FINISHED = []  # (case, firings per trigger, their counts when the run ended) of the runs this worker process has finished


def judge(part: Part, grid, specs):
    bars, fired, present, err = run_case(grid, specs)
    part.count("runs")
    case = {"grid": list(grid), "specs": [spec_json(s) for s in specs]}
    kinds = "+".join(s["kind"] for s in specs)
    if err is not None:
        part.violation(f"C18|{kinds}|exception|{err.split(':')[0]}", f"bar loop raised with this trigger: {err[:100]}", case)
        return
    for i, s in enumerate(specs):
        part.count("trigger_evaluations")
        if s.get("register_by") is not None:
            # registered by another trigger's action during the trigger phase of a bar: that bar is still being served, it belongs to what the new
            # trigger denotes (a trigger that is due right now must not be retired unfired)
            at = run_case.chained_at.get(i)
            if at is None:
                part.count("chained_trigger_never_registered")
                continue
            window = bars[at:]
        else:
            window = bars if s.get("register_at") is None else bars[s["register_at"] + 1:]
        want = denote(s, window)
        got_list = [t for t, _ in fired[i]]
        got = set(got_list)
        if s.get("unaligned"):
            # a period that is not a multiple of the bar interval: what it denotes between its landings is not fixed by the statement; the ALIGNED periods
            # of the same trigger must fire independently of it (lower bound), and nothing may fire outside the union of all landings (upper bound)
            aligned = dict(s, deltas=[d for d in s["deltas"] if d not in s["unaligned"]])
            low = denote(aligned, window)
            part.count("unaligned_period_cases")
            if not low <= got or not got <= want:
                part.violation(f"C18|{s['kind']}|unaligned|bars", "with one period that does not fall on the bar grid, the other periods of the trigger must still fire on "
                               "their own bars (and nothing outside the union of all periods' landings)", case,
                               {"trigger": i, "missing": sorted(low - got), "extra": sorted(got - want), "bars": bars})
            continue
        tag = s["kind"] + ("" if len(specs) == 1 else "|paired")
        if want:
            part.count("nontrivial")
        if len(got_list) != len(got):
            part.violation(f"C18|{tag}|fired-twice", "action called more than once on a bar", case,
                           {"fired": got_list})
        if got != want:
            missing, extra = sorted(want - got), sorted(got - want)
            why = "missed" if missing and not extra else ("extra" if extra and not missing else "both")
            part.violation(f"C18|{tag}|bars|{why}", f"trigger fired on the wrong set of bars ({why})", case,
                           {"trigger": i, "missing": missing, "extra": extra, "bars": bars})
        for _, kw in fired[i]:
            if kw != s.get("kwargs", {}):
                part.violation(f"C18|{tag}|kwargs", "action not called with the supplied extra arguments", case,
                               {"got": kw, "want": s.get("kwargs", {})})
                break
        # retirement: once missing after bar j, no denoted bar may lie after j
        for j, here in enumerate(present[i]):
            if here is None:
                continue  # not registered yet
            if not here:
                later = [b for b in want if b > bars[j]]
                if later:
                    part.violation(f"C18|{tag}|retired-early", "trigger retired although it could still fire", case,
                                   {"trigger": i, "retired_after": bars[j], "still_due": later})
                break


# ---- alphabets ---------------------------------------------------------------------------------------
def grids(thorough):
    out = []
    for start in (0, 7):
        for interval, raw_len in ((1, 8), (2, 16), (5, 30)) if not thorough else ((1, 12), (2, 22), (5, 45)):
            out.append((start, interval, raw_len))
    out.append((7, 2, 16, "debug-log"))
    out.append((0, 1, 8, "hourly"))
    out.append((7, 2, 16, "hourly"))
    return out


def bar_grid(grid):
    """The bar grid as pandas resampling defines it (origin start_day); only used to PLACE parameters —
    the oracle uses the bars actually observed in the run."""
    import pandas as pd
    from mc.worlds import base

    start_minute, interval, raw_len = grid[:3]
    idx = pd.date_range(base.T0 + timedelta(minutes=start_minute), periods=raw_len, freq="1min")
    return [t.to_pydatetime() for t in pd.Series(0, index=idx).resample(f"{interval}min").first().index]


def cases_for(grid, thorough):
    bars = bar_grid(grid)
    s = timedelta(minutes=grid[1])
    n = len(bars)
    cand = [bars[0] - s, bars[0], bars[1], bars[n // 2], bars[-1], bars[-1] + s]
    if grid[1] > 1:
        cand.append(bars[1] + timedelta(minutes=1))  # between bars
    if thorough:
        cand += [bars[2], bars[-2]]
    cand = sorted(set(cand))
    kw = {"extra": 3, "name": "x"}
    out = []
    for t in cand:
        out.append([{"kind": "at", "time": t, "kwargs": kw}])
    out.append([{"kind": "at", "time": bars[1]}])  # kwargs absent
    for k in (1, 2, 3):
        for ts in itertools.combinations(cand, k):
            out.append([{"kind": "ats", "times": list(ts), "kwargs": kw}])
            if k >= 2:  # the list of times is a set to the specification: its order must not matter
                out.append([{"kind": "ats", "times": list(ts)[::-1], "kwargs": kw}])
            if k == 3:
                out.append([{"kind": "ats", "times": [ts[1], ts[2], ts[0]], "kwargs": kw}])
    for a in cand:
        for b in cand:
            out.append([{"kind": "range", "start": a, "end": b, "kwargs": kw}])
    rng = [(a, b) for a in cand[:5] for b in cand[1:6] if a <= b]
    small = rng if thorough else rng[::2]
    for r1, r2 in itertools.combinations_with_replacement(small, 2):
        out.append([{"kind": "ranges", "ranges": [r1, r2], "kwargs": kw}])
        if r1 != r2:
            out.append([{"kind": "ranges", "ranges": [r2, r1], "kwargs": kw}])
    out.append([{"kind": "ranges", "ranges": [rng[0]]}])
    periods = [s, 2 * s, 3 * s] + ([4 * s] if thorough else [])
    delays = [timedelta(0), s, 2 * s]
    for d in periods:
        for p in delays:
            for im in (False, True):
                out.append([{"kind": "period", "delta": d, "pending": p, "immediate": im, "kwargs": kw}])
    for d1, d2 in itertools.product(periods, repeat=2):
        for p in delays[:2]:
            for im in (False, True):
                out.append([{"kind": "periods", "deltas": [d1, d2], "pending": p, "immediate": im, "kwargs": kw}])
    out.append([{"kind": "periods", "deltas": [s, 2 * s, 3 * s], "pending": timedelta(0), "immediate": False}])
    out.append([{"kind": "periods", "deltas": [2 * s], "pending": s, "immediate": True}])
    # times carrying seconds / fractions of a second (e.g. datetime.now(), parsed ISO strings) mean the minute they lie in
    frac = timedelta(seconds=30, microseconds=500000)
    out.append([{"kind": "at", "time": bars[1] + frac, "kwargs": kw}])
    out.append([{"kind": "at", "time": bars[n // 2] + timedelta(microseconds=7), "kwargs": kw}])
    out.append([{"kind": "ats", "times": [bars[0] + frac, bars[2] + timedelta(microseconds=1), bars[-1]], "kwargs": kw}])
    out.append([{"kind": "range", "start": bars[1] + frac, "end": bars[3] + timedelta(microseconds=250), "kwargs": kw}])
    out.append([{"kind": "ranges", "ranges": [(bars[0] + timedelta(microseconds=9), bars[1] + frac), (bars[2] + frac, bars[4])], "kwargs": kw}])
    # a trigger registered while the run is under way, after another one has retired
    early = {"kind": "at", "time": bars[1], "kwargs": {"k": 0}}
    for late_spec in ({"kind": "period", "delta": 2 * s, "pending": timedelta(0), "immediate": False, "kwargs": {"k": 7}},
                      {"kind": "period", "delta": s, "pending": s, "immediate": True, "kwargs": {"k": 7}},
                      {"kind": "range", "start": bars[min(4, n - 2)], "end": bars[-1], "kwargs": {"k": 8}},
                      {"kind": "at", "time": bars[-1], "kwargs": {"k": 9}},
                      {"kind": "ats", "times": [bars[min(4, n - 1)], bars[-1]], "kwargs": {"k": 9}}):
        for reg in (0, 2, 3):
            if reg + 1 < n:
                out.append([dict(early), dict(late_spec, register_at=reg)])
                out.append([dict(late_spec, register_at=reg)])
    # a follow-up trigger registered by another trigger's action (chained registration)
    for first in ({"kind": "at", "time": bars[1], "kwargs": {"k": 0}}, {"kind": "period", "delta": 2 * s, "pending": timedelta(0), "immediate": True, "kwargs": {"k": 0}}):
        b_reg = bars[1] if first["kind"] == "at" else bars[0]
        for follow in ({"kind": "at", "time": b_reg, "kwargs": {"k": 5}},
                       {"kind": "range", "start": b_reg, "end": b_reg + 3 * s, "kwargs": {"k": 6}},
                       {"kind": "ats", "times": [b_reg, bars[-1]], "kwargs": {"k": 7}},
                       {"kind": "period", "delta": s, "pending": timedelta(0), "immediate": True, "kwargs": {"k": 8}},
                       {"kind": "range", "start": b_reg + s, "end": bars[-1], "kwargs": {"k": 9}}):
            out.append([dict(first), dict(follow, register_by=0)])
    # several periods of which one does not fall on the bar grid (1.5 bars): the others are independent of it
    odd = timedelta(seconds=1.5 * s.total_seconds())
    if odd.total_seconds() % 60 == 0:
        for deltas in ([odd, 2 * s], [2 * s, odd], [odd, s, 3 * s]):
            for p in delays[:2]:
                out.append([{"kind": "periods", "deltas": deltas, "pending": p, "immediate": False, "kwargs": kw, "unaligned": [odd]}])
    # two triggers at once: one representative of each kind, all ordered pairs
    reps = [
        {"kind": "at", "time": bars[1], "kwargs": {"k": 1}},
        {"kind": "ats", "times": [bars[0], bars[2]], "kwargs": {"k": 2}},
        {"kind": "range", "start": bars[1], "end": bars[3], "kwargs": {"k": 3}},
        {"kind": "ranges", "ranges": [(bars[0], bars[1]), (bars[2], bars[4])], "kwargs": {"k": 4}},
        {"kind": "period", "delta": 2 * s, "pending": timedelta(0), "immediate": True, "kwargs": {"k": 5}},
        {"kind": "periods", "deltas": [2 * s, 3 * s], "pending": timedelta(0), "immediate": False, "kwargs": {"k": 6}},
    ]
    for a, b in itertools.product(reps, repeat=2):
        out.append([dict(a), dict(b)])
    return out


def work(args):
    seed, items = args
    part = Part(seed)
    for grid, specs in items:
        part.sample({"grid": list(grid), "specs": [spec_json(s) for s in specs]}, every=211)
        judge(part, grid, specs)
        # a trigger belongs to the strategy (and run) it was registered with: a LATER run with its own strategy must not fire an earlier strategy's triggers again
        for case, fired, counts in FINISHED[:-1]:
            part.count("finished_runs_rechecked")
            if [len(f) for f in fired] != counts:
                part.violation("C18|finished-run-fired-again", "triggers of an already finished run fired during a later run of another strategy (their action was called again)",
                               case, {"later_run": {"grid": list(grid), "specs": [spec_json(x) for x in specs]}, "firings_at_end_of_own_run": counts,
                                      "firings_now": [len(f) for f in fired]})
        del FINISHED[:-3]
    return part.result()


def main(run: Run):
    items = []
    for g in grids(run.thorough):
        for specs in cases_for(g, run.thorough):
            items.append((g, specs))
    # multi-day schedules: six-hour bars over two and a half days, periods and delays of a day and more (a handful of cases, each a 3600-row run)
    gd = (0, 360, 3600)
    h = timedelta(hours=1)
    for pending in (24 * h, 30 * h, 6 * h):
        for im in (False, True):
            items.append((gd, [{"kind": "period", "delta": 12 * h, "pending": pending, "immediate": im, "kwargs": {"d": 1}}]))
        items.append((gd, [{"kind": "periods", "deltas": [12 * h, 18 * h], "pending": pending, "immediate": False, "kwargs": {"d": 2}}]))
    items.append((gd, [{"kind": "period", "delta": 24 * h, "pending": timedelta(0), "immediate": False}]))
    # periods that do not divide a day (18 h) or exceed it (36 h, 2 days), followed for more than a day after their first due time
    for delta in (18 * h, 36 * h, 48 * h, 30 * h):
        for pending in (timedelta(0), 6 * h):
            items.append((gd, [{"kind": "period", "delta": delta, "pending": pending, "immediate": False, "kwargs": {"d": 3}}]))
    items.append((gd, [{"kind": "periods", "deltas": [18 * h, 30 * h], "pending": timedelta(0), "immediate": True, "kwargs": {"d": 4}}]))
    items = run.rotate(items)
    for p in pmap(work, [(run.seed, c) for c in chunks(items, 64)]):
        run.merge(p)
    runs = run.counters.get("runs", 0)
    cov = {
        "states": run.counters.get("trigger_evaluations", 0),
        "transitions": runs * 1,
        "traces_validated_against_impl": runs,
        "evaluations": runs,
        "distinct_nontrivial": run.counters.get("nontrivial", 0),
        "rule": "every trigger kind x parameter placements (before start, on first/second/middle/last bar, between bars, after "
                "end; periods 1-3(4) bars, delays 0-2 bars, immediate flag; all pairs of periods; all pairs of ranges) x bar grids "
                "(start minute 0/7, interval 1/2/5 min); each case is one complete run of the real Actuator loop. states = "
                "(run, trigger) pairs judged; distinct_nontrivial = those whose denotation is a non-empty set of bars.",
        "exhaustive": True,
        "completed_bound": {"grids": len(grids(run.thorough)), "cases": len(items)},
    }
    return run.finish(cov, [
        "periods and delays are multiples of the bar interval (DESIGN §9)",
        "the bar grid used by the oracle is the one observed in the run (before_bar timestamps); C05 checks that grid itself",
    ])


def replay(run: Run, path):
    data = json.load(open(path))
    c = data["case"]
    part = Part()
    judge(part, tuple(c["grid"]), [spec_unjson(s) for s in c["specs"]])
    for sig, v in part.violations.items():
        print("reproduced:", sig, v[0], v[2])
    print("REPLAY", "violations" if part.violations else "clean")
    return 1 if part.violations else 0
