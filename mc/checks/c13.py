"""C13 — every derived Aave view always equals a from-scratch recomputation.

Explicit-state exploration of interleavings read*, write, read*, write, read* (reads of single derived views or of all
of them are EVENTS, because they fill the memoised caches; writes include accepted and rejected operations, bar changes
and a liquidating bar). After every event every view is compared with a recomputation from the raw positions, the
harness's own index frames, prices and risk parameters — evaluated on a snapshot so the oracle itself never perturbs
the cache state. The dedup key includes the cache fill pattern."""
from __future__ import annotations

from decimal import Decimal, localcontext
from fractions import Fraction

from mc.engine.core import Part, Run, pmap
from mc.worlds import kit
from mc.worlds.kit import F, Op

LEVEL = "model_checking"
N_BARS = 5
Q4 = Fraction(1, 10**4)
REL = Fraction(1, 10**24)
CACHES = ("_collaterals_amount_cache", "_supplies_amount_cache", "_supplies_cache", "_borrows_amount_cache", "_borrows_cache")
SECONDS = 31536000


def make_world():
    from demeter._typing import USD
    from mc.worlds import aave
    from mc.worlds.catalog import World
    from mc.worlds.kit import Ctx

    frames = aave.make_data(N_BARS)
    prices = aave.price_frame(N_BARS, {"WETH": [1, 1, "0.58", 1, 1]})

    class Adapter(aave.AaveAdapter):
        def raw(self):
            r = super().raw()
            r["cache_fill"] = [not getattr(self.market, c).empty for c in CACHES]
            return r

    class RepricedCtx(Ctx):
        """price_row() honours a what-if repricing inside the bar (model['repriced']); the flag is part of the snapshot / canonical state"""

        def price_row(self):
            row = super().price_row()
            if getattr(self, "model", None) and self.model.get("repriced"):
                row = row.copy()
                row["WETH"] = row["WETH"] * Decimal("0.9")
            return row

    def build():
        m = aave.make_market(frames)
        ad = Adapter(m, frames)
        ctx = RepricedCtx("aave", prices, USD, [ad], [(aave.WETH, 10), (aave.USDC, 20000), (aave.DAI, 5000), (aave.USDT, 8000)], prices.index)
        ctx.begin_bar(0)
        ctx.model = {"writes": 0, "last_read": False, "repriced": False}
        ctx.canon_model = True
        return ctx

    w = World("aave", build, ((),), {f"aave.{k}": v for k, v in frames.items()})
    w.aave = aave
    return w


SEEDS = {
    "empty": (),
    "healthy": ("w.supply[WETH,C]", "w.supply[USDC,C]", "w.borrow[DAI,third]"),
    "before-shock": ("w.supply[WETH,C]", "w.borrow[USDC,most]", "w.advance", "w.advance"),
    # one debt against two collaterals: at the shock the bigger collateral is seized entirely, the debt is not covered, the other collateral remains
    "two-collaterals-one-debt-before-shock": ("w.supply[WETH,C]", "w.supply[USDC,C]", "w.borrow[USDC,most]", "w.advance", "w.advance"),
    "two-collaterals-before-shock": ("w.supply[WETH,C]", "w.supply[USDC,C]", "w.borrow[DAI,third]", "w.borrow[USDC,most]", "w.advance", "w.advance"),
}


def seeded_build(world, seed_name):
    def build():
        ctx = world.build()
        alph = alphabet(world, 99)
        for lab in SEEDS[seed_name]:
            ops = {o.label: o for o in alph(ctx)}
            out = kit.apply(ctx, ops[lab])
            if not out.ok:
                raise RuntimeError(f"seed {seed_name}: {lab} rejected: {out.error}")
        ctx.model = {"writes": 0, "last_read": False, "repriced": False}
        return ctx
    return build


_APY = {}


def apy(rate) -> Fraction:
    key = str(rate)
    if key not in _APY:
        _APY[key] = _apy(rate)
    return _APY[key]


def _apy(rate) -> Fraction:
    with localcontext() as c:
        c.prec = 60
        return Fraction((1 + Decimal(rate) / SECONDS) ** SECONDS - 1)


READS_ALL = ["single", "print", "supplies", "borrows", "supplies_value", "borrows_value", "collateral_value", "health_factor", "balance", "all", "max_withdraw", "max_borrow"]
READS_QUICK = ["single", "print", "health_factor", "all", "max_withdraw"]
READS = list(READS_QUICK)


def do_read(m, which):
    if which == "single":  # one position looked up directly (no list built first): the debt that was opened last, the supply that was opened first
        out = []
        if m._borrows:
            out.append(m.get_borrow(list(m._borrows)[-1]))
        if m._supplies:
            out.append(m.get_supply(list(m._supplies)[0]))
        return out
    if which == "print":  # the console table of the market (what print(broker) / a debugging strategy shows): a read like any other
        return m.formatted_str()
    if which == "max_withdraw":  # read-only helper queries go through the cached views too and must leave them as they are
        return [m.get_max_withdraw_amount(t) for t in list(m._supplies)]
    if which == "max_borrow":
        return [m.get_max_borrow_amount(t) for t in list(m._supplies)] if m._supplies else None
    if which == "balance":
        return m.get_market_balance()
    if which == "all":
        return (m.supplies, m.borrows, m.supplies_value, m.borrows_value, m.collateral_value, m.health_factor, m.get_market_balance())
    return getattr(m, which)


def alphabet(world, max_writes):
    aave = world.aave
    W, U, D, T = aave.WETH, aave.USDC, aave.DAI, aave.USDT

    def ops(ctx):
        ad = ctx.adapters[0]
        m = ad.market
        md = ctx.model
        out = []

        def write(fn):
            def f(c):
                c.model["writes"] += 1
                c.model["last_read"] = False
                return fn()
            return f

        def read(which):
            def f(c):
                c.model["last_read"] = True
                return do_read(m, which)
            return f

        if not md["last_read"]:
            for r in READS:
                out.append(Op(f"read[{r}]", read(r), False, "read"))
        if md["writes"] >= max_writes:
            return out

        def room(f):
            r = ad.ref_risk()
            v = (r["ltv_sum"] - r["debt"]) * f
            return Decimal(v.numerator) / Decimal(v.denominator) if v > 0 else Decimal(1)

        out.append(Op("w.supply[WETH,C]", write(lambda: m.supply(W, Decimal(2), True)), False, "supply"))
        out.append(Op("w.supply[USDC,C]", write(lambda: m.supply(U, Decimal(3000), True)), False, "supply"))
        out.append(Op("w.supply[USDT,N]", write(lambda: m.supply(T, Decimal(1000), False)), False, "supply"))
        out.append(Op("w.supply[WETH,N-mismatch]", write(lambda: m.supply(W, Decimal(1), False)), True, "supply"))
        # more than the wallet holds, of a token that has no supply yet: refused by the wallet
        out.append(Op("w.supply[DAI,more-than-wallet]", write(lambda: m.supply(D, Decimal(10**7), True)), True, "supply"))
        if W in m._supplies:
            out.append(Op("w.withdraw[WETH,part]", write(lambda: m.withdraw(W, Decimal("0.25"))), False, "withdraw"))
            out.append(Op("w.withdraw[WETH,None]", write(lambda: m.withdraw(W)), True, "withdraw"))
            out.append(Op("w.change_collateral[WETH,N]", write(lambda: m.change_collateral(W, False)), False, "change_collateral"))
            out.append(Op("w.change_collateral[WETH,C]", write(lambda: m.change_collateral(W, True)), False, "change_collateral"))
        if U in m._supplies:
            out.append(Op("w.change_collateral[USDC,N]", write(lambda: m.change_collateral(U, False)), False, "change_collateral"))
            out.append(Op("w.change_collateral[USDC,C]", write(lambda: m.change_collateral(U, True)), False, "change_collateral"))
            out.append(Op("w.withdraw[USDC,part]", write(lambda: m.withdraw(U, Decimal(500))), False, "withdraw"))
        out.append(Op("w.borrow[USDC,most]", write(lambda: m.borrow(U, room(Fraction(9, 10)) / ctx.price_row()["USDC"])), False, "borrow"))
        out.append(Op("w.borrow[DAI,third]", write(lambda: m.borrow(D, room(Fraction(1, 3)) / ctx.price_row()["DAI"])), False, "borrow"))
        out.append(Op("w.borrow[DAI,beyond]", write(lambda: m.borrow(D, room(Fraction(11, 10)) / ctx.price_row()["DAI"] + 1)), True, "borrow"))
        for t in (U, D):
            if t in m._borrows:
                out.append(Op(f"w.repay[{t.name},part]", write(lambda t=t: m.repay(t, m.get_borrow(t).amount / 3)), False, "repay"))
                out.append(Op(f"w.repay[{t.name},None]", write(lambda t=t: m.repay(t)), True, "repay"))
                out.append(Op(f"w.repay[{t.name},part,WETH]", write(lambda t=t: m.repay(t, m.get_borrow(t).amount / 4, True, W)), True, "repay"))

                def repay_all_with_smallest(t=t):
                    # the whole debt is to be paid out of the collateral position that is worth LEAST: if it is worth less than the debt the repayment is capped
                    # and that position is used up
                    row = ctx.price_row()
                    colls = [k for k, sp in m._supplies.items() if sp.collateral]
                    small = min(colls, key=lambda k: F(m.get_supply(k).amount) * F(row[k.name]))
                    return m.repay(t, None, True, small)
                if any(sp.collateral for sp in m._supplies.values()):
                    out.append(Op(f"w.repay[{t.name},None,smallest-collateral]", write(repay_all_with_smallest), True, "repay"))
        if ctx.bar + 1 < len(ctx.index):
            def reprice():
                # a what-if inside the bar: the status of the SAME timestamp is set again with another price vector (legal use of the API)
                from demeter import MarketStatus

                ctx.model["repriced"] = not ctx.model["repriced"]
                m.set_market_status(MarketStatus(ctx.index[ctx.bar], None), ctx.price_row())
            out.append(Op("w.reprice", write(reprice), True, "reprice"))

            def adv():
                if ctx.model["repriced"]:  # back to the bar's real prices before the bar ends
                    reprice()
                # the strategy's after_bar hook runs between update() (liquidation) and the next bar's status refresh: views read there
                # must be fresh too, so they are compared right after the real update() as well
                ctx.end_bar()
                hook = getattr(ctx, "after_update", None)
                if hook is not None:
                    hook(ctx)
                ctx.begin_bar(ctx.bar + 1)
            out.append(Op("w.advance", write(adv), False, "advance"))
        return out
    return ops


def close(got, want: Fraction, tol=REL, abs_=Fraction(0)):
    if want is None:
        return got == Decimal("inf")
    if not Decimal(got).is_finite():
        return False
    g = F(got)
    return abs(g - want) <= abs_ + tol * max(abs(want), 1)


class Oracle:
    def __init__(self, part, world):
        self.part = part
        self.world = world

    def on_state(self, ctx, hist):
        ctx.hist_ref = list(hist)
        self.part.count("states_visited")
        self.part.sample({"history": list(hist)}, every=997)

    def on_transition(self, ctx, hist, op, pre_raw, snap, out):
        part = self.part
        part.count("transitions")
        part.count("reads" if op.kind == "read" else ("writes_accepted" if out.ok else "writes_rejected"))
        if op.kind == "advance" and not out.ok:
            part.violation(f"C13|advance|exception|{out.error[0]}", f"bar change raised {out.error}",
                           {"seed": getattr(self, "seed_name", "empty"), "history": list(hist)})
            return
        if op.kind == "advance" and len(ctx.actions) > snap["n_actions"]:
            part.count("liquidating_bars")
        self.guarded_check(ctx, hist, op)

    def guarded_check(self, ctx, hist, op, phase=None):
        keep = ctx.snapshot()
        for reverse in (False, True):
            try:
                self.check_views(ctx, hist, op, phase, reverse)
            except Exception as e:  # noqa: BLE001  a view that cannot even be evaluated / compared is a wrong view
                self.part.violation(f"C13|view-unusable|{type(e).__name__}", "a derived view raised or returned something that cannot be compared with the recomputation",
                                    {"seed": getattr(self, "seed_name", "empty"), "history": list(hist)}, {"error": repr(e)[:200]})
            finally:
                ctx.restore(keep)

    def after_update(self, ctx):
        class _K:
            kind = "update"
        self.guarded_check(ctx, list(getattr(ctx, "hist_ref", [])) + ["w.advance"], _K, "after-update(after_bar hook)")

    def check_views(self, ctx, hist, op, phase=None, reverse=False):
        part = self.part
        ad = ctx.adapters[0]
        m = ad.market
        aave = self.world.aave
        case = {"seed": getattr(self, "seed_name", "empty"), "history": list(hist)}
        sup, bor = ad.ref_positions()
        risk = ad.ref_risk()
        last = phase or ("after-read" if op.kind == "read" else f"after-{op.kind}")
        ts = ctx.index[ctx.bar]

        def bad(view, detail):
            part.violation(f"C13|{view}|{last}", f"derived view {view} differs from a from-scratch recomputation ({last})", case, detail)

        part.count("view_comparisons")
        sections = [self._sec_lists, self._sec_dicts, self._sec_totals, self._sec_risk, self._sec_apy, self._sec_balance]
        # reading one view may fill (or repair) the memo another view is served from: the views are read in the given order and, in a second pass
        # from the same state, in the opposite order
        for sec in (sections if not reverse else sections[::-1]):
            sec(ctx, m, ad, sup, bor, risk, ts, bad)

    def _sec_lists(self, ctx, m, ad, sup, bor, risk, ts, bad):
        # listed supplies / borrows
        try:
            sv = m.supplies
            bv = m.borrows
        except Exception as e:
            bad("supplies", {"exception": repr(e)})
            return
        if {k.name for k in sv} != set(sup) or {k.name for k in bv} != set(bor):
            bad("supplies.keys", {"impl": sorted(k.name for k in sv), "raw": sorted(sup)})
        else:
            for k, s in sv.items():
                amt, val, coll = sup[k.name]
                if s.collateral != coll:
                    bad("supplies.collateral", {"token": k.name, "view": s.collateral, "raw": coll})
                if not close(s.amount, amt) or not close(s.value, val):
                    bad("supplies.amount", {"token": k.name, "view": float(s.amount), "raw": float(amt)})
                if not close(s.apy, apy(ad.frames[k.name].loc[ts]["liquidity_rate"]), Fraction(1, 10**20)):
                    bad("supplies.apy", {"token": k.name})
            for k, b in bv.items():
                amt, val = bor[k.name]
                if not close(b.amount, amt) or not close(b.value, val):
                    bad("borrows.amount", {"token": k.name, "view": float(b.amount), "raw": float(amt)})
                if not close(b.apy, apy(ad.frames[k.name].loc[ts]["variable_borrow_rate"]), Fraction(1, 10**20)):
                    bad("borrows.apy", {"token": k.name, "view": float(b.apy)})

    def _sec_dicts(self, ctx, m, ad, sup, bor, risk, ts, bad):
        # value dicts
        for name, view, ref in (("supplies_value", m.supplies_value, {s: v[1] for s, v in sup.items()}),
                                ("borrows_value", m.borrows_value, {s: v[1] for s, v in bor.items()}),
                                ("collateral_value", m.collateral_value, {s: v[1] for s, v in sup.items() if v[2]})):
            got = {k.name: v for k, v in view.items()}
            if set(got) != set(ref) or any(not close(got[k], ref[k]) for k in ref):
                bad(name, {"view": {k: float(v) for k, v in got.items()}, "raw": {k: float(v) for k, v in ref.items()}})

    def _sec_totals(self, ctx, m, ad, sup, bor, risk, ts, bad):
        if not close(m.total_supply_value, risk["supply"]) or not close(m.total_borrows_value, risk["debt"]) \
                or not close(m.total_collateral_value, risk["collateral"]):
            bad("totals", {"view": [float(m.total_supply_value), float(m.total_borrows_value), float(m.total_collateral_value)],
                           "raw": [float(risk["supply"]), float(risk["debt"]), float(risk["collateral"])]})

    def _sec_risk(self, ctx, m, ad, sup, bor, risk, ts, bad):
        # risk figures
        for name, got, want in (("health_factor", m.health_factor, risk["hf"]), ("max_ltv", m.max_ltv, risk["max_ltv"]),
                                ("liquidation_threshold", m.liquidation_threshold, risk["lt"]), ("ltv", m.ltv, risk["ltv"])):
            if not close(got, want):
                bad(name, {"view": str(got), "raw": None if want is None else float(want)})

    def _sec_apy(self, ctx, m, ad, sup, bor, risk, ts, bad):
        # apys
        s_apy = sum((v[1] * apy(ad.frames[s].loc[ts]["liquidity_rate"]) for s, v in sup.items()), Fraction(0))
        b_apy = sum((v[1] * apy(ad.frames[s].loc[ts]["variable_borrow_rate"]) for s, v in bor.items()), Fraction(0))
        want_s = s_apy / risk["supply"] if risk["supply"] else Fraction(0)
        want_b = b_apy / risk["debt"] if risk["debt"] else Fraction(0)
        if not close(m.supply_apy, want_s, Fraction(1, 10**20)) or not close(m.borrow_apy, want_b, Fraction(1, 10**20)):
            bad("apy", {"view": [float(m.supply_apy), float(m.borrow_apy)], "raw": [float(want_s), float(want_b)]})

    def _sec_balance(self, ctx, m, ad, sup, bor, risk, ts, bad):
        # market balance (quantised to 1e-4 by the API)
        mb = m.get_market_balance()
        # net value is the difference of two figures each quantised to 1e-4, so it may be off by up to 1e-4 in total; the components by half of that
        if abs(F(mb.net_value) - (risk["supply"] - risk["debt"])) > 2 * Q4 or abs(F(mb.supplies_value) - risk["supply"]) > Q4 \
                or abs(F(mb.borrows_value) - risk["debt"]) > Q4 or abs(F(mb.collaterals_value) - risk["collateral"]) > Q4 \
                or mb.supplies_count != len(sup) or mb.borrows_count != len(bor):
            bad("market_balance", {"view": [float(mb.net_value), float(mb.supplies_value), float(mb.borrows_value)],
                                   "raw": [float(risk["supply"] - risk["debt"]), float(risk["supply"]), float(risk["debt"])]})
        if risk["hf"] is not None and abs(F(mb.health_factor) - risk["hf"]) > Q4:
            bad("market_balance.health_factor", {"view": float(mb.health_factor), "raw": float(risk["hf"])})

    def finish(self):
        pass


def run_partition(args):
    seed, writes, first, seed_name = args
    world = make_world()
    part = Part(seed)
    orc = Oracle(part, world)
    orc.seed_name = seed_name
    sb = seeded_build(world, seed_name)

    def build():
        ctx = sb()
        ctx.after_update = orc.after_update
        return ctx
    stats = kit.explore(build, alphabet(world, writes), 2 * writes + 1, 99, orc.on_transition,
                        on_state=orc.on_state, roots=((),), first=first)
    r = part.result()
    r["stats"] = stats
    return r


def main(run: Run):
    # quick: <= 2 writes with the short read list; thorough: <= 3 writes with the short read list AND <= 2 writes with every read
    passes = [(2, READS_QUICK)] if not run.thorough else [(3, READS_QUICK), (2, READS_ALL)]
    writes = max(w for w, _ in passes)
    world = make_world()
    tot = {"states": 0, "transitions": 0, "complete": 0}
    for writes_p, reads_p in passes:
        READS[:] = reads_p  # before forking the workers
        jobs = []
        for sn in (SEEDS if run.thorough else [k for k in SEEDS if k != "two-collaterals-before-shock"]):
            ctx = seeded_build(world, sn)()
            labels = [o.label for o in alphabet(world, writes_p)(ctx)]
            jobs += [(run.seed, writes_p, frozenset([l]), sn) for l in labels]
        jobs = run.rotate(jobs)
        for r in pmap(run_partition, jobs):
            run.merge(r)
            for k in tot:
                tot[k] += r["stats"][k]
    READS[:] = sorted(set(READS_QUICK) | (set(READS_ALL) if run.thorough else set()))
    cov = {
        "states": max(tot["states"], 1), "transitions": max(tot["transitions"], 1),
        "traces_validated_against_impl": tot["complete"],
        "evaluations": run.counters.get("view_comparisons", 0),
        "distinct_nontrivial": tot["states"],
        "rule": f"all alternations read?, write, read?, write, ... with <= {writes} writes, a read event being one of {READS}; writes: "
                "supply (collateral / non-collateral / flag mismatch), withdraw (accepted, rejected), borrow (accepted, rejected), repay "
                "(cash, with collateral), change_collateral (accepted, rejected), bar advance, liquidating bar; dedup key = raw positions + "
                "cache fill pattern + bar. After every event all views are compared with the recomputation (on a snapshot).",
        "reads": run.counters.get("reads", 0), "writes_accepted": run.counters.get("writes_accepted", 0),
        "writes_rejected": run.counters.get("writes_rejected", 0), "liquidating_bars": run.counters.get("liquidating_bars", 0),
        "exhaustive": True, "completed_bound": {"passes": [{"writes": w, "reads": list(r)} for w, r in passes]},
    }
    return run.finish(cov, ["recomputation uses the harness's own index frames and risk table, never the market's caches",
                            "API quantisation to 1e-4 in get_market_balance is reproduced as a 1e-4 tolerance"])


def replay(run: Run, path):
    import json

    data = json.load(open(path))
    hist = data["case"]["history"]
    world = make_world()
    part = Part()
    orc = Oracle(part, world)
    orc.seed_name = data["case"].get("seed", "empty")
    ctx = seeded_build(world, orc.seed_name)()
    ctx.after_update = orc.after_update
    alph = alphabet(world, 9)
    if hist and hist[-1] == "w.advance" and "after-update" in data["signature"]:
        hist = hist[:-1] + ["w.advance"]
    for i, lab in enumerate(hist):
        ctx.hist_ref = hist[:i]
        ops = {o.label: o for o in alph(ctx)}
        snap = ctx.snapshot()
        out = kit.apply(ctx, ops[lab])
        orc.on_transition(ctx, hist[:i + 1], ops[lab], None, snap, out)
    for sig, v in part.violations.items():
        print("reproduced:", sig, v[0], v[2])
    print("REPLAY", "violations" if part.violations else "clean")
    return 1 if part.violations else 0
