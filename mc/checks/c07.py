"""C07 — liquidity / amount math: no over-spend, maximal, one-sided out of range, exact.

Exhaustive over a boundary-rich grid: tick pairs x sqrt prices placed on / next to / between the range
bounds x decimals {6,8,18}^2 x offered amounts 0..1e12 tokens.  Reference in integers / Fractions.
"""
from __future__ import annotations

import itertools
import json
from decimal import Decimal, localcontext
from fractions import Fraction

from mc.engine.core import Part, Run, pmap

LEVEL = "exploration"

MIN_TICK, MAX_TICK = -887272, 887272
MIN_SQRT = 4295128739
MAX_SQRT = 1461446703485210103287273052203988822378723970342
TICKS_FULL = [MIN_TICK, MIN_TICK + 1, -887220, -200040, -60, -1, 0, 1, 60, 200040, 887220, MAX_TICK - 1, MAX_TICK]
TICKS_QUICK = [MIN_TICK, -887220, -200040, -1, 0, 60, MAX_TICK]  # (MIN_TICK, -887220): a narrow range at the very low end, where liquidity per token is astronomically large
DECIMALS = [6, 8, 18]
Q96 = 1 << 96
MULTS = [1, 2, 7, 10**6]
REL = Fraction(1, 10**30)


def amounts_for(d):
    return [Decimal(0), Decimal(1) / Decimal(10**d), Decimal("0.000001"), Decimal(1), Decimal("1.0000006"), Decimal("2.00000000000000000051"), Decimal("1234.567891"),
            Decimal(10**6), Decimal(10**12)]


def F(x) -> Fraction:
    if isinstance(x, Decimal):
        return Fraction(x)
    return Fraction(x)


_MAGIC = [0xfffcb933bd6fad37aa2d162d1a594001, 0xfff97272373d413259a46990580e213a, 0xfff2e50f5f656932ef12357cf3c7fdcc, 0xffe5caca7e10e4e61c3624eaa0941cd0,
          0xffcb9843d60f6159c9db58835c926644, 0xff973b41fa98c081472e6896dfb254c0, 0xff2ea16466c96a3843ec78b326b52861, 0xfe5dee046a99a2a811c461f1969c3053,
          0xfcbe86c7900a88aedcffc83b479aa3a4, 0xf987a7253ac413176f2b074cf7815e54, 0xf3392b0822b70005940c7a398e4b70f3, 0xe7159475a2c29b7443b29c7fa6e889d9,
          0xd097f3bdfd2022b8845ad8f792aa5825, 0xa9f746462d870fdf8a65dc1f90e061e5, 0x70d869a156d2a1b890bb3df62baf32f7, 0x31be135f97d08fd981231505542fcfa6,
          0x9aa508b5b7a84e1c677de54f3e99bc9, 0x5d6af8dedb81196699c329225ee604, 0x2216e584f5fa1ea926041bedfe98, 0x48a170391f7dc42444e8fa2]


def ref_sqrt_ratio(tick: int) -> int:
    """Uniswap v3 TickMath.getSqrtRatioAtTick, ported independently (the range bounds of this check do not come from the library under test)."""
    a = abs(tick)
    ratio = _MAGIC[0] if a & 1 else 1 << 128
    for i in range(1, 20):
        if a & (1 << i):
            ratio = (ratio * _MAGIC[i]) >> 128
    if tick > 0:
        ratio = ((1 << 256) - 1) // ratio
    return (ratio >> 32) + (1 if ratio % (1 << 32) else 0)


def ref_amounts(sp, sa, sb, liq, d0, d1):
    """Closed-form Uniswap v3 amounts (exact)."""
    c = min(max(sp, sa), sb)
    a0 = Fraction(liq * Q96 * (sb - c), sb * c) / 10**d0
    a1 = Fraction(liq * (c - sa), Q96) / 10**d1
    return a0, a1


def price_points(sa, sb):
    span = sb - sa
    pts = [sa - 1, sa, sa + 1, sa + span // 4, sa + span // 2, sa + 3 * span // 4, sb - 1, sb, sb + 1, MIN_SQRT, MAX_SQRT]
    out = []
    for p in pts:
        if MIN_SQRT <= p <= MAX_SQRT and p not in out:
            out.append(p)
    return sorted(out)


def close_rel(a: Fraction, b: Fraction, rel=REL):
    return abs(a - b) <= rel * max(abs(a), abs(b))


def check_pair(part: Part, ta, tb, do_market=True):
    from demeter.uniswap.liquitidy_math import get_amounts, get_liquidity, get_sqrt_ratio_at_tick
    from demeter.uniswap.core import V3CoreLib
    from demeter.uniswap import UniV3Pool
    from demeter import TokenInfo

    sa, sb = ref_sqrt_ratio(ta), ref_sqrt_ratio(tb)
    pts = price_points(sa, sb)
    case_base = {"lower": ta, "upper": tb}
    # the range is a set of two ticks: naming them in descending order must not change anything
    for sp in pts:
        for d0, d1 in ((6, 18), (18, 6)):
            amt0, amt1 = Decimal("1234.567891"), Decimal("1.0000006")
            part.count("evaluations")
            l_fwd = get_liquidity(sp, ta, tb, amt0, amt1, d0, d1)
            l_rev = get_liquidity(sp, tb, ta, amt0, amt1, d0, d1)
            if l_fwd != l_rev or get_amounts(sp, tb, ta, l_fwd, d0, d1) != get_amounts(sp, ta, tb, l_fwd, d0, d1):
                part.violation("C07|tick-order", "liquidity / amounts depend on the order in which the two range ticks are given", dict(case_base, sqrt=sp, d0=d0, d1=d1),
                               {"ascending": l_fwd, "descending": l_rev})
    for d0, d1 in itertools.product(DECIMALS, DECIMALS):
        A0, A1 = amounts_for(d0), amounts_for(d1)
        pool = UniV3Pool(TokenInfo("T0", d0), TokenInfo("T1", d1), 0.005, TokenInfo("T0", d0))
        # --- fixed-liquidity properties along the sorted price grid ----------------------------------
        for base_liq in (1, 12345678901234567, 10**24):
            prev = None
            for sp in pts:
                part.count("evaluations")
                a0, a1 = get_amounts(sp, ta, tb, base_liq, d0, d1)
                r0, r1 = ref_amounts(sp, sa, sb, base_liq, d0, d1)
                case = dict(case_base, kind="amounts", d0=d0, d1=d1, sqrt=sp, liq=base_liq)
                if a0 < 0 or a1 < 0:
                    part.violation("C07|get_amounts|negative", "negative position amount", case, {"a0": a0, "a1": a1})
                if not (close_rel(F(a0), r0) and close_rel(F(a1), r1)):
                    part.violation("C07|get_amounts|closed-form", "amounts differ from the closed-form v3 formulas by > 1e-30",
                                   case, {"a0": a0, "a1": a1, "ref0": str(r0.limit_denominator(10**40)),
                                          "ref1": str(r1.limit_denominator(10**40))})
                where = "below" if sp <= sa else ("above" if sp >= sb else "inside")
                one_sided_ok = (where == "below" and a1 == 0 and a0 > 0) or (where == "above" and a0 == 0 and a1 > 0) \
                    or (where == "inside" and a0 > 0 and a1 > 0)
                if not one_sided_ok:
                    part.violation(f"C07|get_amounts|sidedness|{where}", f"wrong token sides with price {where} the range",
                                   case, {"a0": a0, "a1": a1})
                if prev is not None:
                    # monotone up to the 35-digit rounding of the library's Decimal context
                    if F(a0) > F(prev[0]) * (1 + REL) or F(a1) < F(prev[1]) * (1 - REL):
                        part.violation("C07|get_amounts|monotone", "token0 must not increase / token1 must not decrease with price",
                                       case, {"prev": prev, "now": (a0, a1)})
                prev = (a0, a1)
                for k in MULTS[1:]:
                    b0, b1 = get_amounts(sp, ta, tb, base_liq * k, d0, d1)
                    part.count("evaluations")
                    if not (close_rel(F(b0), F(a0) * k) and close_rel(F(b1), F(a1) * k)):
                        part.violation("C07|get_amounts|proportional", "amounts(k*L) != k*amounts(L)", dict(case, k=k),
                                       {"kL": (b0, b1), "L": (a0, a1)})
        # --- liquidity for offered amounts -----------------------------------------------------------
        for sp in pts:
            where = "below" if sp <= sa else ("above" if sp >= sb else "inside")
            for i0, amt0 in enumerate(A0):
                for i1, amt1 in enumerate(A1):
                    part.count("evaluations")
                    part.count("liq_cases")
                    case = dict(case_base, kind="liquidity", d0=d0, d1=d1, sqrt=sp, amt0=str(amt0), amt1=str(amt1))
                    liq = get_liquidity(sp, ta, tb, amt0, amt1, d0, d1)
                    u0, u1 = get_amounts(sp, ta, tb, liq, d0, d1)
                    w0, w1 = int(amt0 * 10**d0), int(amt1 * 10**d1)
                    if liq < 0:
                        part.violation("C07|get_liquidity|negative", "negative liquidity", case, {"liq": liq})
                        continue
                    if liq > 0:
                        part.count("nontrivial_liq")
                    e0, e1 = ref_amounts(sp, sa, sb, liq, d0, d1)
                    if e0 > F(amt0) or e1 > F(amt1) or F(u0) > F(amt0) * (1 + REL) or F(u1) > F(amt1) * (1 + REL):
                        part.violation(f"C07|get_liquidity|overspend|{where}", "minted liquidity needs more than an offered amount",
                                       case, {"liq": liq, "used0": u0, "used1": u1})
                    # maximality against the real-valued maximum
                    c = min(max(sp, sa), sb)
                    cands = []
                    if c < sb:
                        cands.append(Fraction(w0 * c * sb, Q96 * (sb - c)))
                    if c > sa:
                        cands.append(Fraction(w1 * Q96, c - sa))
                    real_max = min(cands)
                    slack = 1 + (Fraction(w0, sb - c) if c < sb else 0)
                    if F(liq) < real_max - slack:
                        part.violation(f"C07|get_liquidity|not-maximal|{where}",
                                       "liquidity falls short of the real-valued maximum by more than the integer rounding",
                                       case, {"liq": liq, "real_max": str(real_max.limit_denominator(10**6)), "slack": float(slack)})
                    if F(liq) > real_max:
                        part.violation(f"C07|get_liquidity|above-max|{where}", "liquidity exceeds the real-valued maximum",
                                       case, {"liq": liq, "real_max": str(real_max.limit_denominator(10**6))})
                    # new_position / close_position round trip
                    n0, n1, nl, pinfo = V3CoreLib.new_position(pool, amt0, amt1, ta, tb, sp)
                    c0, c1 = V3CoreLib.close_position(pool, pinfo, nl, sp)
                    if nl != liq or (liq > 0 and (n0 != c0 or n1 != c1)) or (n0, n1) != (u0, u1):
                        part.violation("C07|new_position|roundtrip", "close_position at the deposit price does not return the used amounts",
                                       case, {"new": (n0, n1, nl), "close": (c0, c1)})
                    if do_market and i0 in (0, 3, 6) and i1 in (0, 4, 6):
                        market_roundtrip(part, case, ta, tb, sp, d0, d1, amt0, amt1, (u0, u1, liq))


_MARKETS = {}


def market_roundtrip(part, case, ta, tb, sp, d0, d1, amt0, amt1, expect):
    """Same round trip through the real market object (both quote orientations)."""
    import pandas as pd
    from demeter import Broker, MarketInfo, TokenInfo
    from demeter.uniswap import UniLpMarket, UniV3Pool, UniswapMarketStatus

    for q0 in (True, False):
        part.count("evaluations")
        part.count("market_roundtrips")
        t0, t1 = TokenInfo("T0", d0), TokenInfo("T1", d1)
        pool = UniV3Pool(t0, t1, 0.005, t0 if q0 else t1)
        broker = Broker()
        market = UniLpMarket(MarketInfo("m"), pool)
        broker.add_market(market)
        market.set_market_status(UniswapMarketStatus(None, pd.Series(
            data=[0, 0, 10**20, 0, Decimal(1)], index=["inAmount0", "inAmount1", "currentLiquidity", "closeTick", "price"])), None)
        # the wallet holds MORE than is offered: the offer, not the balance, is the limit (an offer of 0 means 0)
        broker.set_balance(t0, amt0 + 7)
        broker.set_balance(t1, amt1 + 7)
        base_amt, quote_amt = (amt1, amt0) if q0 else (amt0, amt1)
        try:
            pos, base_used, quote_used, liq = market.add_liquidity_by_tick(ta, tb, base_amt, quote_amt, sqrt_price_x96=sp,
                                                                         trim_tick=False)
            base_get, quote_get = market.remove_liquidity(pos, collect=False, sqrt_price_x96=sp)
        except Exception as e:
            part.violation(f"C07|market|exception|{type(e).__name__}", f"market round trip raised {type(e).__name__}: {e}",
                           dict(case, kind="market", q0=q0))
            continue
        used0, used1 = (quote_used, base_used) if q0 else (base_used, quote_used)
        get0, get1 = (quote_get, base_get) if q0 else (base_get, quote_get)
        if liq != expect[2] or (used0, used1) != (expect[0], expect[1]) or (liq > 0 and (get0, get1) != (used0, used1)):
            part.violation("C07|market|roundtrip", "add_liquidity_by_tick / remove_liquidity do not round-trip the used amounts",
                           dict(case, kind="market", q0=q0),
                           {"used": (used0, used1, liq), "got_back": (get0, get1), "expected": expect})


def moving_bar_roundtrip(part, ta, tb):
    """Deposit and immediate withdrawal at the bar's DEFAULT price in a bar whose close differs from its price: both must use the same price."""
    import pandas as pd
    from demeter import Broker, MarketInfo, TokenInfo
    from demeter.uniswap import UniLpMarket, UniV3Pool, UniswapMarketStatus

    if not (-800000 < ta < tb < 800000):
        return
    for q0 in (True, False):
        for where in ("inside", "below", "above"):
            part.count("evaluations")
            part.count("moving_bar_roundtrips")
            t0, t1 = TokenInfo("T0", 6), TokenInfo("T1", 18)
            pool = UniV3Pool(t0, t1, 0.005, t0 if q0 else t1)
            broker = Broker()
            market = UniLpMarket(MarketInfo("m"), pool)
            broker.add_market(market)
            tick_p = {"inside": (ta + tb) // 2, "below": ta - 50, "above": tb + 50}[where]
            close = {"inside": tb + 70, "below": (ta + tb) // 2, "above": ta - 70}[where]  # the bar ends on the other side of a bound
            price = market.tick_to_price(tick_p)
            market.set_market_status(UniswapMarketStatus(None, pd.Series(
                data=[0, 0, 10**20, close, price], index=["inAmount0", "inAmount1", "currentLiquidity", "closeTick", "price"])), None)
            broker.set_balance(t0, Decimal(10**6))
            broker.set_balance(t1, Decimal(10**3))
            case = {"lower": ta, "upper": tb, "kind": "moving-bar", "q0": q0, "price_tick": tick_p, "close_tick": close}
            try:
                pos, base_used, quote_used, liq = market.add_liquidity_by_tick(ta, tb, Decimal(3), Decimal(3), trim_tick=False)
                base_get, quote_get = market.remove_liquidity(pos, collect=False)
            except Exception as e:  # noqa: BLE001
                part.violation(f"C07|market|exception|{type(e).__name__}", f"market round trip raised {type(e).__name__}: {e}", case)
                continue
            if liq > 0 and (base_get, quote_get) != (base_used, quote_used):
                part.violation("C07|market|roundtrip|moving-bar", "withdrawing at the deposit price (the bar's price) does not return the deposited amounts", case,
                               {"used": (base_used, quote_used, liq), "got_back": (base_get, quote_get)})


def wallet_roundtrips(part, ta, tb):
    """Round trips judged at the WALLET (what the user is left with), at one price:
    (a) staged: deposit, withdraw without collecting (the range stays in the book, emptied), deposit again into the same ticks, withdraw everything and collect -
        the wallet is back where it started, to the last digit (withdrawing at the deposit price returns exactly what was deposited, also in two instalments);
    (b) the wallet holds a hair more than the offer (0.005 %, outside the wallet's 0.001 % sweep band): what leaves the wallet is the used amount, not more."""
    import pandas as pd
    from demeter import Broker, MarketInfo, TokenInfo
    from demeter.uniswap import UniLpMarket, UniV3Pool, UniswapMarketStatus

    if not (-800000 < ta < tb < 800000):
        return
    for q0 in (True, False):
        for mode in ("staged", "hair-above-offer"):
            part.count("evaluations")
            part.count("wallet_roundtrips")
            t0, t1 = TokenInfo("T0", 6), TokenInfo("T1", 18)
            pool = UniV3Pool(t0, t1, 0.005, t0 if q0 else t1)
            broker = Broker()
            market = UniLpMarket(MarketInfo("m"), pool)
            broker.add_market(market)
            tick_p = (ta + tb) // 2
            price = market.tick_to_price(tick_p)
            market.set_market_status(UniswapMarketStatus(None, pd.Series(
                data=[0, 0, 10**20, tick_p, price], index=["inAmount0", "inAmount1", "currentLiquidity", "closeTick", "price"])), None)
            case = {"lower": ta, "upper": tb, "kind": f"wallet-{mode}", "q0": q0, "price_tick": tick_p}
            base, quote = market.base_token, market.quote_token
            try:
                if mode == "staged":
                    w_b, w_q = Decimal("1000.123456"), Decimal("1000.654321")
                    broker.set_balance(base, w_b)
                    broker.set_balance(quote, w_q)
                    pos, b1, q1, liq1 = market.add_liquidity_by_tick(ta, tb, Decimal(3), Decimal(3), trim_tick=False)
                    market.remove_liquidity(pos, collect=False)
                    pos2, b2, q2, liq2 = market.add_liquidity_by_tick(ta, tb, Decimal(2), Decimal(5), trim_tick=False)
                    market.remove_liquidity(pos2, collect=True)
                    got = (broker.get_token_balance(base), broker.get_token_balance(quote))
                    # the wallet's sums are rounded to the library's 35-digit context: "back where it started" is judged to 1e-30 relative
                    near = all(abs(g - w) <= w * Decimal("1e-30") for g, w in zip(got, (w_b, w_q)))
                    if liq1 > 0 and liq2 > 0 and (not near or pos2 in market.positions):
                        part.violation("C07|market|roundtrip|staged", "two deposits into one range, the first withdrawn but not collected in between: withdrawing and collecting "
                                       "everything at the deposit price does not return what was deposited", case,
                                       {"wallet_start": (w_b, w_q), "wallet_end": got, "deposits": [(b1, q1), (b2, q2)]})
                else:
                    offer = Decimal("3.000001")
                    hair = offer * (1 + Decimal("0.00005"))
                    broker.set_balance(base, hair)
                    broker.set_balance(quote, hair)
                    pos, b1, q1, liq1 = market.add_liquidity_by_tick(ta, tb, offer, offer, trim_tick=False)
                    left = (broker.get_token_balance(base), broker.get_token_balance(quote))
                    exact = all(abs(l - (hair - u)) <= hair * Decimal("1e-30") for l, u in zip(left, (b1, q1)))
                    if liq1 > 0 and (b1 > offer or q1 > offer or not exact):
                        part.violation("C07|market|overspend|wallet", "a deposit took more out of the wallet than the amounts it reports as used (and than was offered)", case,
                                       {"offered": offer, "wallet_before": hair, "used": (b1, q1), "wallet_after": left})
            except Exception as e:  # noqa: BLE001
                part.violation(f"C07|market|exception|{type(e).__name__}", f"market round trip raised {type(e).__name__}: {e}", case)


def reprice_same_bar(part, ta, tb):
    """The status of ONE timestamp is set twice with different pool prices (a what-if inside a bar, a corrected row): deposits and withdrawals after the
    second status use the second price - differential against a fresh market that only ever saw the second status."""
    import datetime

    import pandas as pd
    from demeter import Broker, MarketInfo, TokenInfo
    from demeter.uniswap import UniLpMarket, UniV3Pool, UniswapMarketStatus

    if not (-800000 < ta < tb < 800000) or tb - ta < 40:
        return
    ts = datetime.datetime(2024, 1, 1, 0, 5)
    for q0 in (True, False):
        t0, t1 = TokenInfo("T0", 6), TokenInfo("T1", 18)
        pool = UniV3Pool(t0, t1, 0.05, t0 if q0 else t1)
        for first, second in (("inside", "above"), ("above", "inside"), ("below", "above")):
            tick_of = {"inside": (ta + tb) // 2, "below": ta - 50, "above": tb + 50}
            results = []
            for two_statuses in (True, False):
                broker = Broker()
                market = UniLpMarket(MarketInfo("m"), pool)
                broker.add_market(market)
                broker.set_balance(t0, Decimal(10**6))
                broker.set_balance(t1, Decimal(10**3))

                def status(where):
                    tk = tick_of[where]
                    market.set_market_status(UniswapMarketStatus(ts, pd.Series(
                        data=[0, 0, 10**20, tk, market.tick_to_price(tk)], index=["inAmount0", "inAmount1", "currentLiquidity", "closeTick", "price"])), None)
                try:
                    if two_statuses:
                        status(first)
                        market.get_market_balance()                  # something looks at the market under the first price
                        market.add_liquidity_by_tick(ta, tb, Decimal(1), Decimal(1), trim_tick=False)
                        market.remove_all_liquidity() if hasattr(market, "remove_all_liquidity") else None
                        broker.set_balance(t0, Decimal(10**6))
                        broker.set_balance(t1, Decimal(10**3))
                    status(second)
                    pos, bu, qu, liq = market.add_liquidity_by_tick(ta, tb, Decimal(3), Decimal(3), trim_tick=False)
                    back = market.remove_liquidity(pos, collect=False)
                    results.append((bu, qu, liq, tuple(back)))
                except Exception as e:  # noqa: BLE001
                    results.append(("raised", type(e).__name__, str(e)[:80]))
            part.count("evaluations")
            part.count("same_bar_reprices")
            if results[0] != results[1]:
                part.violation("C07|market|same-bar-reprice", "after the status of a bar has been set again with another pool price, a deposit / withdrawal differs from "
                               "the same deposit on a market that only saw the second status", {"lower": ta, "upper": tb, "kind": "same-bar-reprice", "q0": q0,
                                                                                                "first": first, "second": second},
                               {"after_two_statuses": [str(x) for x in results[0]], "fresh_market": [str(x) for x in results[1]]})


def argument_forms(part, ta, tb):
    """The same deposit through the market's other argument forms: price given as an explicit `tick=` that is NOT a multiple of the spacing (with the
    default trim_tick), range given as prices (add_liquidity), offers of exactly 0 for either token while the wallet holds plenty. Expected amounts
    come from the independent TickMath port and V3CoreLib.new_position, which the grid above has just tied to the closed forms."""
    import pandas as pd
    from demeter import Broker, MarketInfo, TokenInfo
    from demeter.uniswap import UniLpMarket, UniV3Pool, UniswapMarketStatus
    from demeter.uniswap.core import V3CoreLib

    if not (-800000 < ta < tb < 800000) or tb - ta < 40:
        return
    for q0 in (True, False):
        t0, t1 = TokenInfo("T0", 6), TokenInfo("T1", 18)
        pool = UniV3Pool(t0, t1, 0.05, t0 if q0 else t1)  # spacing 10
        sp_ = pool.tick_spacing
        lo, hi = ta - ta % sp_, tb - tb % sp_  # on the spacing grid already, so trimming the RANGE changes nothing
        if lo >= hi:
            continue
        for where, tick_p in (("inside-offgrid", (lo + hi) // 2 // sp_ * sp_ + 3), ("just-above-lower", lo + 1), ("just-below-upper", hi - 1), ("below", lo - 13), ("above", hi + 17)):
            sqp = ref_sqrt_ratio(tick_p)
            for offer in ((Decimal(3), Decimal(3)), (Decimal(0), Decimal(3)), (Decimal(3), Decimal(0)), (Decimal(0), Decimal(0))):
                for form in ("by_tick(tick=)", "by_price", "by_tick(sqrt_price_x96=,tick=)"):
                    part.count("evaluations")
                    part.count("argument_forms")
                    broker = Broker()
                    market = UniLpMarket(MarketInfo("m"), pool)
                    broker.add_market(market)
                    price = market.tick_to_price(tick_p)
                    market.set_market_status(UniswapMarketStatus(None, pd.Series(
                        data=[0, 0, 10**20, tick_p, price], index=["inAmount0", "inAmount1", "currentLiquidity", "closeTick", "price"])), None)
                    broker.set_balance(t0, Decimal(10**6))
                    broker.set_balance(t1, Decimal(10**3))
                    amt0, amt1 = offer
                    base_amt, quote_amt = (amt1, amt0) if q0 else (amt0, amt1)
                    case = {"lower": ta, "upper": tb, "kind": "argument-forms", "q0": q0, "range": [lo, hi], "price_tick": tick_p, "offer_token0_token1": [str(amt0), str(amt1)],
                            "form": form}
                    try:
                        if form == "by_tick(tick=)":
                            e0, e1, eliq, _ = V3CoreLib.new_position(pool, amt0, amt1, lo, hi, sqp)
                            pos, base_used, quote_used, liq = market.add_liquidity_by_tick(lo, hi, base_amt, quote_amt, tick=tick_p)
                        elif form == "by_tick(sqrt_price_x96=,tick=)":
                            # both given: the precise price wins (documented), here a price half way into the tick; withdrawing at that price returns the deposit
                            sq_mid = (sqp + ref_sqrt_ratio(tick_p + 1)) // 2
                            e0, e1, eliq, _ = V3CoreLib.new_position(pool, amt0, amt1, lo, hi, sq_mid)
                            pos, base_used, quote_used, liq = market.add_liquidity_by_tick(lo, hi, base_amt, quote_amt, sqrt_price_x96=sq_mid, tick=tick_p)
                            if liq > 0:
                                back = market.remove_liquidity(pos, collect=False, sqrt_price_x96=sq_mid)
                                if tuple(back) != (base_used, quote_used):
                                    part.violation("C07|market|roundtrip|both-arguments", "withdrawing at the deposit price (given as sqrt_price_x96 next to a tick) does not return the deposit",
                                                   case, {"used": [str(base_used), str(quote_used)], "got_back": [str(x) for x in back]})
                        else:
                            # range given as prices: whichever ticks the market derives, the amounts must follow from THOSE ticks at the bar's price
                            p_lo, p_hi = sorted((market.tick_to_price(lo), market.tick_to_price(hi)))
                            pos, base_used, quote_used, liq = market.add_liquidity(p_lo, p_hi, base_max_amount=base_amt, quote_max_amount=quote_amt)
                            if abs(pos.lower_tick - lo) > sp_ or abs(pos.upper_tick - hi) > sp_:
                                part.violation("C07|market|price-range", "add_liquidity placed the range more than one spacing away from the given prices", case,
                                               {"position": [pos.lower_tick, pos.upper_tick]})
                                continue
                            from demeter.uniswap.helper import base_unit_price_to_sqrt_price_x96
                            sq_bar = base_unit_price_to_sqrt_price_x96(price, t0.decimal, t1.decimal, q0)
                            e0, e1, eliq, _ = V3CoreLib.new_position(pool, amt0, amt1, pos.lower_tick, pos.upper_tick, sq_bar)
                    except Exception as e:  # noqa: BLE001
                        part.violation(f"C07|market|exception|{type(e).__name__}", f"deposit through {form} raised {type(e).__name__}: {e}", case)
                        continue
                    used0, used1 = (quote_used, base_used) if q0 else (base_used, quote_used)
                    if used0 > amt0 or used1 > amt1:
                        part.violation("C07|market|overspend|offer", "the deposit took more of a token than was offered (an offer of 0 is an offer)", case,
                                       {"used": [str(used0), str(used1)], "liquidity": liq})
                    elif (used0, used1, liq) != (e0, e1, eliq):
                        part.violation(f"C07|market|argument-form|{form}", "the deposit differs from the position minted for the same range, offer and price", case,
                                       {"used": [str(used0), str(used1), liq], "expected": [str(e0), str(e1), eliq]})


def neighbours_first():
    """What a strategy typically does before it ever touches the liquidity math: let the library search a range for a wanted token ratio, ask for the greeks of a
    range, estimate ratios, size a swap. These helpers live next to the math and share its process-wide state (decimal context, memos): the math must be
    the same after them as before (the grid below is evaluated AFTER these calls in every job)."""
    import contextlib
    import io
    from decimal import Decimal

    from demeter.uniswap import helper, liquitidy_math

    with contextlib.redirect_stdout(io.StringIO()):
        found = [helper.find_tick_range_at_rate(Decimal("1800"), Decimal("1"), 10, 6, 18, True, error=Decimal("0.01")),
                 helper.find_tick_range_at_rate(Decimal("0.0005"), Decimal("2"), 60, 18, 6, False, error=Decimal("0.01")),
                 helper.find_tick_range_at_rate(Decimal("1800"), Decimal("1"), 10, 6, 18, True, error=Decimal("0.000000000001"))]  # usually finds nothing
        helper.get_greeks(Decimal("1800"), Decimal("1500"), Decimal("2100"))
        liquitidy_math.estimate_ratio(201360, 199440, 203270)
        liquitidy_math.amounts_relation(201360, 199440, 203270, 6, 18)
        helper.get_swap_value(Decimal(1000), Decimal(0), Decimal("0.0005"), Decimal(1))
        helper.get_swap_value_with_part_balance_used(Decimal(1000), Decimal(10), Decimal("0.0005"), Decimal(1), Decimal(500))
    return found


def work(args):
    seed, pairs = args
    import demeter.uniswap  # sets the library's 35-digit context, as any user import does

    part = Part(seed)
    try:
        found = neighbours_first()
        part.count("neighbour_helper_rounds")
        part.count("range_searches_successful", sum(1 for f in found if f is not None))
    except Exception as e:  # noqa: BLE001 - the helpers themselves are not this property's subject; what they leave behind is
        part.count(f"neighbour_helpers_raised.{type(e).__name__}")
    for ta, tb in pairs:
        part.count("tick_pairs")
        part.sample({"lower": ta, "upper": tb, "prices": "11 points on/around/between the bounds", "decimals": "{6,8,18}^2",
                     "amounts": "9x9 incl. 0, 1 wei, sub-unit fractions, 1e12"}, every=7)
        check_pair(part, ta, tb)
        moving_bar_roundtrip(part, ta, tb)
        argument_forms(part, ta, tb)
        reprice_same_bar(part, ta, tb)
        wallet_roundtrips(part, ta, tb)
    return part.result()


def main(run: Run):
    ticks = run.pick(TICKS_QUICK, TICKS_FULL)
    pairs = [(a, b) for a, b in itertools.combinations(sorted(ticks), 2)]
    jobs = [(run.seed, [p]) for p in run.rotate(pairs)]
    for p in pmap(work, jobs):
        run.merge(p)
    cov = {
        "evaluations": run.counters.get("evaluations", 0),
        "distinct_nontrivial": run.counters.get("nontrivial_liq", 0),
        "rule": f"ticks {ticks}, all pairs lower<upper; per pair 11 sqrt prices (bounds, bounds±1, quartiles, MIN/MAX sqrt ratio); "
                "decimals {6,8,18}^2; offered amounts {0, 1 wei, 1e-6, 1, 1.0000006, 2.00000000000000000051 (sub-unit fractions), 1234.567891, 1e6, 1e12} per token; liquidity multipliers "
                f"{MULTS}. distinct_nontrivial = number of distinct (pair, price, decimals, amounts) cases that mint liquidity > 0.",
        "tick_pairs": run.counters.get("tick_pairs", 0),
        "liq_cases": run.counters.get("liq_cases", 0),
        "market_roundtrips": run.counters.get("market_roundtrips", 0),
        "exhaustive": True,
        "completed_bound": {"ticks": len(ticks), "pairs": len(pairs)},
    }
    return run.finish(cov, [
        "Decimal results are compared with exact Fractions to 1e-30 relative (the library works in a 35-digit context)",
        "maximality slack = 1 + offered_token0_wei / (sqrtB - sqrtP) liquidity units, as in the property statement",
    ])


def replay(run: Run, path):
    import demeter.uniswap

    data = json.load(open(path))
    c = data["case"]
    part = Part()
    check_pair(part, c["lower"], c["upper"])
    moving_bar_roundtrip(part, c["lower"], c["upper"])
    argument_forms(part, c["lower"], c["upper"])
    reprice_same_bar(part, c["lower"], c["upper"])
    hit = {s: v for s, v in part.violations.items() if s == data["signature"]}
    for sig, v in (hit or part.violations).items():
        print("reproduced:", sig, v[0], v[1], v[2])
    print("REPLAY", "violations" if part.violations else "clean")
    return 1 if part.violations else 0
