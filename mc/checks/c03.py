"""C03 — frozen-market operations never create value, negative holdings or over-redemption.

Explicit-state exploration of every world's operation alphabet at a fixed bar; on EVERY transition (accepted or
rejected) the change of total net value, computed by the independent reference valuation from raw fields, is
bounded by the wallet's rounding dust; conserving operations conserve, swaps lose exactly the reported fee;
no holding is negative afterwards."""
from __future__ import annotations

from decimal import Decimal
from fractions import Fraction

from mc.checks import opscommon
from mc.engine.core import Run
from mc.worlds import kit
from mc.worlds.kit import F

LEVEL = "model_checking"

SNAP = Fraction(1, 10**5)
REL = Fraction(1, 10**20)
CONSERVING_UNI = ("add_liquidity", "add_liquidity_by_tick", "remove_liquidity", "collect_fee", "remove_all_liquidity")
CONSERVING_AAVE = ("supply", "withdraw", "borrow", "repay", "change_collateral")


def conserving(kind: str) -> bool:
    market, _, name = kind.partition(".")
    if market.startswith("aave"):
        return name in CONSERVING_AAVE
    if market in ("uni", "squni"):
        return name in CONSERVING_UNI
    return False


class Oracle:
    PROBE_STATES = 2

    def __init__(self, part, world):
        self.part = part
        self.world = world
        self.causes = set()
        self.nv_cache = {}
        self.probe_states = {}

    def reported(self, ctx):
        """(account net value as the broker reports it, slack for the implementation's own rounding) or (None, 0) if it cannot be evaluated"""
        from mc.checks.c01 import tolerance

        try:
            nv = F(ctx.impl_net_value())
        except Exception:  # noqa: BLE001  a state in which the report itself fails is C01 / C13 territory
            return None, Fraction(0)
        row = ctx.price_row()
        slack = Fraction(0)
        for a in ctx.adapters:
            q = a.market.quote_token
            conv = F(row[q.name]) if q != ctx.broker.quote_token else Fraction(1)
            t = tolerance(a, a.ref_value())
            if a.kind == "squeeth":
                t += tolerance(a.ua, Fraction(0))
            slack += t * conv
        return nv, slack

    def on_state(self, ctx, hist):
        self.part.count("states_visited")
        neg = ctx.negatives()
        if neg:
            self.part.violation(f"C03|negative|{','.join(sorted(set(n.split('[')[0] for n in neg)))}",
                                f"negative holding reachable: {neg[:4]}", {"world": self.world.name, "history": list(hist)},
                                {"negatives": neg})

    def on_transition(self, ctx, hist, op, pre_raw, snap, out):
        self.judge(ctx, hist, op, pre_raw, snap, out)
        if out.ok:
            return
        # a rejected call must not disarm what protects the NEXT call: every boundary / to-be-rejected operation of the same market is tried right after
        # the rejection (once per state, operation and cause; these probes do not use up the explorer's deviation budget)
        cause = (out.error[0], out.error[1][:24])
        seen = snap.setdefault("_c03_seen", set())
        if (op.kind, cause) in seen:
            return
        seen.add((op.kind, cause))
        # ... and from at most PROBE_STATES different states per (operation, cause) and partition: what a rejection leaves behind depends on the
        # cause, the follow-ups need a state in which they bite (the seeded portfolios and their first successors provide it)
        n = self.probe_states.get((op.kind, cause), 0)
        if n >= self.PROBE_STATES:
            return
        self.probe_states[(op.kind, cause)] = n + 1
        own = op.kind.split(".")[0]
        post_snap = ctx.snapshot()
        post_raw = ctx.raw()
        for nxt in self.world.alphabet(ctx):
            if not nxt.deviation or nxt.kind.split(".")[0] != own:
                continue
            out2 = kit.apply(ctx, nxt)
            self.part.count("probes_after_rejection")
            self.judge(ctx, list(hist) + [nxt.label], nxt, post_raw, post_snap, out2)
            ctx.restore(post_snap)

    def judge(self, ctx, hist, op, pre_raw, snap, out):
        part = self.part
        part.count("transitions")
        part.count("accepted" if out.ok else "rejected")
        row = ctx.price_row()
        post_nv = ctx.ref_net_value()
        post_reported, post_slack = self.reported(ctx)
        # pre-state net value: recomputed from the snapshot (restore, value, come back), once per state (the snapshot dict is the same object for
        # every call made from one state); the gain a world allows for an operation is evaluated in the pre-state for every call
        pre = snap.get("_c03_pre")
        has_gain = hasattr(self.world, "allowed_gain")
        slack_extra = Fraction(0)
        if pre is None or has_gain:
            post_snap = ctx.snapshot()
            ctx.restore(snap)
            if pre is None:
                pre = snap["_c03_pre"] = (ctx.ref_net_value(),) + self.reported(ctx) + (ctx.wallet(),)
            if has_gain:
                slack_extra = self.world.allowed_gain(ctx, op)
            ctx.restore(post_snap)
        pre_nv, pre_reported, pre_slack, pre_wallet = pre
        post_wallet = ctx.wallet()
        dust = Fraction(0)
        for k, before in pre_wallet.items():
            after = post_wallet.get(k, Decimal(0))
            if after < before:
                dust += SNAP * F(before) * F(row[k])
        tol = dust + REL * max(abs(pre_nv), abs(post_nv), Fraction(1))
        delta = post_nv - pre_nv
        case = {"world": self.world.name, "history": list(hist)}
        status = "accepted" if out.ok else "rejected"
        if delta != 0:
            part.count("value_moving_transitions")
        part.sample(dict(case, delta_nv=float(delta), outcome=status), every=3001)
        extra = slack_extra if isinstance(slack_extra, Fraction) else Fraction(0)
        if delta > tol + extra:
            part.violation(f"C03|{op.kind}|value-created|{status}",
                           f"{op.kind} ({status}) raised total net value by more than wallet dust", case,
                           {"delta": float(delta), "dust": float(dust), "label": op.label, "pre_nv": float(pre_nv)})
        elif conserving(op.kind) and not op.meta.get("swap") and not op.meta.get("revalues"):
            # accepted OR refused: a conserving operation that is refused half-way and keeps what it had already taken has not conserved either
            if abs(delta) > tol:
                part.violation(f"C03|{op.kind}|not-conserved" + ("" if out.ok else "|rejected"), f"{op.kind} ({status}) does not conserve total net value up to dust", case,
                               {"delta": float(delta), "dust": float(dust), "label": op.label})
        elif out.ok and op.meta.get("swap") and not op.meta.get("multi") and op.meta.get("fee_value") is not None:
            fee_v = op.meta["fee_value"](ctx, out.ret, row)
            if fee_v is not None and abs(delta + fee_v) > tol + REL * abs(fee_v):
                part.violation(f"C03|{op.kind}|swap-fee", f"{op.kind} changes net value by something else than minus the reported fee",
                               case, {"delta": float(delta), "fee_value": float(fee_v), "label": op.label})
        # the account's OWN figure (Broker.get_account_status, with whatever the markets cache) must not show created value either
        if post_reported is not None and pre_reported is not None:
            part.count("reported_value_checks")
            d_rep = post_reported - pre_reported
            if d_rep > tol + extra + pre_slack + post_slack:
                part.violation(f"C03|{op.kind}|reported-value-created|{status}",
                               f"{op.kind} ({status}) raised the account's reported net value by more than wallet dust (the raw holdings did not gain it)", case,
                               {"reported_delta": float(d_rep), "reference_delta": float(delta), "dust": float(dust), "label": op.label})
        neg = ctx.negatives()
        if neg:
            part.violation(f"C03|{op.kind}|negative|{status}",
                           f"{op.kind} ({status}) leaves a negative holding: {neg[:3]}", case, {"negatives": neg, "label": op.label})
        for msg in (op.meta["post"](ctx, pre_raw, out) if op.meta.get("post") else []):
            part.violation(f"C03|{op.kind}|{msg}", f"{op.kind}: {msg}", case, {"label": op.label})

    def finish(self):
        pass


def main(run: Run):
    depth, dev = run.pick((2, 1), (3, 2))
    totals, per_world, causes = opscommon.run_all(run, "mc.checks.c03", depth, dev)
    cov = {
        "states": max(totals["states"], 1),
        "transitions": max(totals["transitions"], 1),
        "traces_validated_against_impl": totals["complete"],
        "evaluations": totals["transitions"],
        "distinct_nontrivial": run.counters.get("value_moving_transitions", 0),
        "rule": "explicit-state DFS over operation labels (operation x argument class {0,dust,part,all,all+,over,huge} resolved against "
                f"the current state) of every world at a frozen bar, from every seeded portfolio, sequences <= {depth} with <= {dev} "
                "deviations, budget-aware dedup on the canonical raw state. Every transition, accepted or rejected, is judged. "
                "distinct_nontrivial = transitions that moved the reference net value at all.",
        "accepted": totals["accepted"], "rejected": totals["rejected"],
        "per_world": per_world,
        "distinct_outcomes": totals["distinct_outcomes"],
        "exhaustive": True,
        "completed_bound": {"depth": depth, "deviations": dev},
    }
    return run.finish(cov, [
        "net value is the reference valuation from raw fields (the one C01 compares the implementation with)",
        "dust = 1e-5 x value of every wallet balance the call debited + 1e-20 relative",
        "documented weakenings: GM deposit may gain the protocol's own capped positive price impact; moving an LP position into/out of a Squeeth vault is revalued index-vs-mark",
    ])


def replay(run: Run, path):
    data, case = opscommon.load_case(path)
    from mc.engine.core import Part

    world = opscommon.get_world(case["world"])
    hist = case["history"]
    part = Part()
    orc = Oracle(part, world)
    ctx = world.build()
    for i, lab in enumerate(hist):
        ops = {o.label: o for o in world.alphabet(ctx)}
        pre = ctx.raw()
        snap = ctx.snapshot()
        out = kit.apply(ctx, ops[lab])
        orc.on_transition(ctx, hist[:i + 1], ops[lab], pre, snap, out)
        print("call:", lab, "ok" if out.ok else out.error)
    orc.on_state(ctx, hist)
    for sig, v in part.violations.items():
        print("reproduced:", sig, v[0], v[2])
    print("REPLAY", "violations" if part.violations else "clean")
    return 1 if part.violations else 0
