"""C06 — tick <-> sqrt-price conversions agree with Uniswap v3 TickMath.

Exhaustive over the whole tick domain [-887272, 887272] (1,774,545 ticks) in both tiers for
get_sqrt_ratio_at_tick and sqrt_price_x96_to_tick; price<->tick helpers and nearest_usable_tick over
a boundary-rich subset (quick) or every tick (thorough).
Oracles are integer / big fixed-point comparisons; no logarithm is used to decide a verdict.
"""
from __future__ import annotations

import json
from decimal import Decimal
from math import isqrt

from mc.engine.core import Part, Run, pmap

LEVEL = "exploration"

MIN_TICK, MAX_TICK = -887272, 887272
MIN_SQRT_RATIO = 4295128739
MAX_SQRT_RATIO = 1461446703485210103287273052203988822378723970342
FP = 400  # fixed-point bits of the closed-form reference
SQ = isqrt(10001 * (1 << (2 * FP)) // 10000)  # sqrt(1.0001) * 2^FP, truncated (rel. error < 2^-399)
DECIMALS = [6, 8, 9, 18]  # 9: tokens with nine decimals give pools with an ODD decimals gap


def fp_pow(n: int) -> int:
    """sqrt(1.0001)^n * 2^FP by square-and-multiply with truncation (rel. error < 64 * 2^-399)."""
    result = 1 << FP
    base = SQ
    while n:
        if n & 1:
            result = (result * base) >> FP
        base = (base * base) >> FP
        n >>= 1
    return result


def true_scaled(t: int, p_abs: int) -> int:
    """sqrt(1.0001)^t * 2^96 * 2^FP  given p_abs = sqrt(1.0001)^|t| * 2^FP."""
    if t >= 0:
        return p_abs << 96
    return (1 << (96 + 2 * FP)) // p_abs


def work_ticks(args):
    """One contiguous chunk of |t| values: checks both t and -t for each."""
    seed, lo, hi, do_helpers, spacing_list = args
    from demeter.uniswap import helper as H
    from demeter.uniswap.liquitidy_math import get_sqrt_ratio_at_tick as ratio

    part = Part(seed)
    one = 1 << FP
    # closed form, cross-check of the sequential product against an independent power at chunk ends
    p = fp_pow(lo)
    table = {}
    for a in range(max(lo - 2, 0), min(hi + 3, MAX_TICK + 1)):
        table[a] = ratio(a)
        table[-a] = ratio(-a)
    for a in range(lo, hi + 1):
        if a > lo:
            p = (p * SQ) >> FP
        for t in ((a, -a) if a else (0,)):
            part.count("ticks")
            r = table[t]
            tru = true_scaled(t, p)
            diff = abs((r << FP) - tru)  # |ratio - true| * 2^FP
            if t <= 0:
                bound = one
            else:
                # 1 + 8 * 1.0001^(t/2) / 2^128 * ratio   (relative slack of the uint256.max // ratio step)
                bound = one + ((8 * p * r) >> 128)
            part.count("evaluations")
            if diff >= bound:
                part.violation("C06|get_sqrt_ratio_at_tick|closed-form",
                               "tick->sqrt price differs from sqrt(1.0001^tick)*2^96 by more than the fixed-point rounding",
                               {"fn": "get_sqrt_ratio_at_tick", "tick": t},
                               {"got": r, "true_floor": tru >> FP})
            if t < MAX_TICK and not table[t + 1] > r:
                part.violation("C06|get_sqrt_ratio_at_tick|monotone", "not strictly increasing",
                               {"fn": "get_sqrt_ratio_at_tick", "tick": t}, {"r": r, "next": table[t + 1]})
            if t == MIN_TICK and r != MIN_SQRT_RATIO or t == MAX_TICK and r != MAX_SQRT_RATIO:
                part.violation("C06|get_sqrt_ratio_at_tick|boundary", "boundary value differs from the protocol constant",
                               {"fn": "get_sqrt_ratio_at_tick", "tick": t}, {"got": r})
            # inverse: greatest u with ratio(u) <= x, decided by integer comparison against ratio()
            nxt = table[t + 1] if t < MAX_TICK else None
            inputs = [(r, t, "on")]
            if t > MIN_TICK:
                inputs.append((r - 1, t - 1, "below"))
            if nxt is not None:
                if r + 1 < nxt:
                    inputs.append((r + 1, t, "above"))
                span = nxt - r
                for q, name in ((span // 2, "mid"), (span // 4, "q1"), (3 * span // 4, "q3"), (span - 1, "top")):
                    if 0 < q < span:
                        inputs.append((r + q, t, name))
            for x, expect, name in inputs:
                part.count("evaluations")
                got = H.sqrt_price_x96_to_tick(x)
                if got != expect:
                    sign = "neg" if expect < 0 else "nonneg"
                    part.violation(f"C06|sqrt_price_x96_to_tick|floor|{sign}|{name}",
                                   f"sqrt price -> tick is not the greatest tick whose sqrt price <= input ({sign} tick, input {name} boundary)",
                                   {"fn": "sqrt_price_x96_to_tick", "x": x, "tick": t},
                                   {"got": got, "expected": expect})
            if helper_tick(t, do_helpers):
                check_helpers(part, H, t)
            for s in spacing_list:
                check_nearest(part, H, t, s)
    # independent cross-check of the running product
    if abs(p - fp_pow(hi)) > (hi + 64) * 4 * ((p >> FP) + 1):  # relative error ~ n * 2^-FP
        raise RuntimeError("reference closed form diverged (harness bug)")
    return part.result()


def helper_tick(t: int, mode: str) -> bool:
    if mode == "all":
        return True
    if mode == "none":
        return False
    a = abs(t)
    if bin(a).count("1") <= 2 or a % 997 == 0 or a in (MAX_TICK, MAX_TICK - 1):
        return True
    for d in (-1, 1):
        b = a + d
        if b > 0 and b & (b - 1) == 0:
            return True
    return False


def check_helpers(part, H, t):
    for d0 in DECIMALS:
        for d1 in DECIMALS:
            for q0 in (True, False):
                part.count("evaluations")
                part.count("helper_cases")
                price = H.tick_to_base_unit_price(t, d0, d1, q0)
                back = H.base_unit_price_to_tick(price, d0, d1, q0)
                if abs(back - t) > 1:
                    part.violation(f"C06|tick->price->tick|{'q0' if q0 else 'q1'}",
                                   "tick -> price -> tick is off by more than one tick",
                                   {"fn": "tick_price_roundtrip", "tick": t, "d0": d0, "d1": d1, "q0": q0},
                                   {"price": price, "back": back})
                sx = H.base_unit_price_to_sqrt_price_x96(price, d0, d1, q0)
                r = H.tick_to_sqrt_price_x96(t)
                # 35-digit decimal context: relative 1e-30 is far below one tick (5e-5)
                if abs(sx - r) > r // 10**25 + 2:
                    part.violation("C06|price->sqrt_x96", "price -> sqrtPriceX96 does not invert tick -> price",
                                   {"fn": "price_sqrt_roundtrip", "tick": t, "d0": d0, "d1": d1, "q0": q0},
                                   {"sqrt_from_price": sx, "sqrt_at_tick": r})
                p2 = H.sqrt_price_x96_to_base_unit_price(r, d0, d1, q0)
                if abs(p2 - price) > abs(price) * Decimal("1e-28"):
                    part.violation("C06|sqrt_x96->price", "sqrtPriceX96 -> price disagrees with tick -> price",
                                   {"fn": "sqrt_price_price", "tick": t, "d0": d0, "d1": d1, "q0": q0},
                                   {"p_from_sqrt": p2, "p_from_tick": price})


def check_nearest(part, H, t, s):
    part.count("evaluations")
    got = H.nearest_usable_tick(t, s)
    ok = got % s == 0 and MIN_TICK <= got <= MAX_TICK
    if ok:
        d = abs(got - t)
        for other in (got - s, got + s):
            if MIN_TICK <= other <= MAX_TICK and abs(other - t) < d:
                ok = False
    if not ok:
        part.violation(f"C06|nearest_usable_tick|spacing{s}", "result is not the nearest in-range multiple of the spacing",
                       {"fn": "nearest_usable_tick", "tick": t, "spacing": s}, {"got": got})


def market_wrappers(run: Run):
    """UniLpMarket.price_to_tick / tick_to_price (the forms a strategy uses) on real markets positioned on bars in which the pool MOVED (the bar's price
    column is the previous close, its closeTick the new one): the wrapper is the helper followed by rounding to the pool's spacing, whatever bar the market
    is on and whatever was asked before; asked for the bar's own price it answers with that price's tick."""
    from decimal import Decimal

    from demeter import TokenInfo
    from demeter.uniswap import UniV3Pool
    from demeter.uniswap import helper as H
    from mc.worlds import uni
    from mc.worlds.kit import Ctx
    from mc.worlds.adapters_uni import UniAdapter
    from mc.worlds.catalog import _decimal_prices

    pools = [("USDC6/WETH18 q0 0.05%", TokenInfo("USDC", 6), TokenInfo("WETH", 18), 0.05, True, 200010),
             ("WETH18/USDC6 q1 0.05%", TokenInfo("WETH", 18), TokenInfo("USDC", 6), 0.05, False, -200010),
             ("WBTC8/WETH18 q1 0.3%", TokenInfo("WBTC", 8), TokenInfo("WETH", 18), 0.3, False, 257400),
             ("SOL9/WETH18 q1 1%", TokenInfo("SOL", 9), TokenInfo("WETH", 18), 1, False, 180000),
             ("USDC6/SOL9 q0 0.3%", TokenInfo("USDC", 6), TokenInfo("SOL", 9), 0.3, True, 23040),
             ("USDC6/USDT6 q0 0.01%", TokenInfo("USDC", 6), TokenInfo("USDT", 6), 0.01, True, 3)]
    for name, t0, t1, fee, q0, centre in pools:
        pool = UniV3Pool(t0, t1, fee, t0 if q0 else t1)
        sp = pool.tick_spacing
        closes = [centre, centre + 36 * sp + 1, centre - 90 * sp - 3, centre + 7]
        data = uni.prepared(uni.raw_frame(closes, 10**9, 10**18, 10**16, open_tick=closes[0]), pool)
        m = uni.make_market(pool, data, "uni")
        price_df, quote = H.get_price_from_data(data, pool)
        ctx = Ctx("c06", _decimal_prices(price_df), quote, [UniAdapter(m, {"in": (centre - 10 * sp, centre + 10 * sp)})], [(t0, 1), (t1, 1)], data.index)
        for bar in range(len(closes)):
            ctx.begin_bar(bar)
            row = m.market_status.data
            price_tick = closes[bar - 1] if bar else closes[0]
            asked = [("bar-price", row.price, price_tick)]
            for t in sorted({price_tick, closes[bar], centre, centre - 5 * sp, centre + 5 * sp + 1, closes[bar] + sp // 2, closes[bar] - 1}):
                asked.append((f"tick_to_price({t})", m.tick_to_price(t), t))
            for what, price, t in asked + asked[:1]:
                run.count("evaluations")
                run.count("market_wrapper_evaluations")
                got = m.price_to_tick(price)
                near = {H.nearest_usable_tick(u, sp) for u in (t - 1, t, t + 1)}  # the helpers are inverse within one tick; then the spacing rounds
                plain = H.nearest_usable_tick(H.base_unit_price_to_tick(Decimal(price), t0.decimal, t1.decimal, q0), sp)
                if got not in near or got != plain:
                    run.violation("C06|market.price_to_tick", "UniLpMarket.price_to_tick does not return the usable tick nearest to the tick of the price it is asked about",
                                  {"fn": "market.price_to_tick", "pool": name, "bar": bar, "asked": what, "tick_of_price": t, "close_tick_of_bar": closes[bar]},
                                  {"got": got, "helper_then_spacing": plain, "acceptable": sorted(near)})
                    break


def main(run: Run):
    mode = run.pick("subset", "all")
    spacings = [1, 2, 3, 7, 10, 50, 60, 200]  # the pools' spacings (1, 10, 60, 200) and others, odd ones included: the helper takes any spacing
    n_chunks = 128
    step = (MAX_TICK + n_chunks) // n_chunks
    jobs = []
    lo = 0
    while lo <= MAX_TICK:
        hi = min(lo + step - 1, MAX_TICK)
        jobs.append((run.seed, lo, hi, mode, spacings))
        lo = hi + 1
    for p in pmap(work_ticks, run.rotate(jobs)):
        run.merge(p)
    # the conversions are functions: what was asked before must not matter. In ONE process (the workers each see a narrow band of |tick| only) a sample of
    # ticks is interleaved with ticks of the other sign, of the complementary magnitude (|t1| + |t2| = 887273) and with its own mirror image, and every
    # answer is compared with the exact TickMath port
    from demeter.uniswap import helper as H
    from demeter.uniswap.liquitidy_math import get_sqrt_ratio_at_tick as ratio
    from mc.checks.c07 import ref_sqrt_ratio

    sample = sorted({t for k in range(20) for t in (1 << k, (1 << k) - 1, (1 << k) + 1)} | set(range(0, MAX_TICK, 4999)) | {MAX_TICK, MAX_TICK - 1, 196026, 443636, 443637})
    sample = [t for t in sample if 0 <= t <= MAX_TICK]
    for t in sample:
        for seq in ((t, -(MAX_TICK + 1 - t), -t, t), (-t, MAX_TICK + 1 - t, t, -t)):
            for u in seq:
                if not -MAX_TICK <= u <= MAX_TICK:
                    continue
                run.count("evaluations")
                run.count("order_independence_evaluations")
                got, want = ratio(u), ref_sqrt_ratio(u)
                if got != want:
                    run.violation("C06|get_sqrt_ratio_at_tick|depends-on-earlier-calls", "the sqrt price of a tick depends on which ticks were converted before it",
                                  {"fn": "get_sqrt_ratio_at_tick", "tick": u, "asked_before": [x for x in seq]}, {"got": str(got), "expected": str(want)})
                    break
                back = H.sqrt_price_x96_to_tick(want)
                if back != u:
                    run.violation("C06|sqrt_price_x96_to_tick|depends-on-earlier-calls", "the tick of an exact boundary sqrt price depends on what was converted before",
                                  {"fn": "sqrt_price_x96_to_tick", "tick": u, "asked_before": [x for x in seq]}, {"got": back})
                    break
    market_wrappers(run)
    run.sample({"fn": "get_sqrt_ratio_at_tick", "tick": -887272, "expect": MIN_SQRT_RATIO})
    run.sample({"fn": "sqrt_price_x96_to_tick", "x": "ratio(t), ratio(t)-1, ratio(t)+1, mid, quartiles, ratio(t+1)-1",
                "for": "every tick t"})
    run.sample({"fn": "tick->price->tick", "ticks": mode, "decimals": DECIMALS, "orientations": [True, False]})
    cov = {
        "evaluations": run.counters.get("evaluations", 0),
        "distinct_nontrivial": run.counters.get("ticks", 0),
        "rule": "every tick in [-887272, 887272]; per tick: closed-form distance, monotonicity, boundary constants, and "
                "the inverse on ratio(t), ratio(t)±1, mid/quartile points and ratio(t+1)-1 with the expected tick decided by "
                "integer comparison against ratio(); price<->tick helpers on "
                + ("every tick" if mode == "all" else "ticks with <=2 set bits, ±2^k±1, every 997th and both ends")
                + " x decimals {6,8,9,18}^2 (odd and even decimals gaps) x both quote orientations; UniLpMarket.price_to_tick / tick_to_price on six pools positioned on bars in which the pool moved; nearest_usable_tick on every tick x spacings "
                f"{spacings}. distinct_nontrivial = number of distinct ticks explored (each is a distinct input).",
        "ticks": run.counters.get("ticks", 0),
        "helper_cases": run.counters.get("helper_cases", 0),
        "exhaustive": True,
        "completed_bound": {"ticks": "all 1,774,545", "helpers": mode},
    }
    return run.finish(cov, [
        "closed form computed in 400-bit fixed point (truncation error < 2^-380 relative), cross-checked per chunk "
        "against an independent square-and-multiply power",
        "bound for tick > 0 is 1 + 8*1.0001^(tick/2)*ratio/2^128 units as in the property statement",
    ])


def replay(run: Run, path):
    from demeter.uniswap import helper as H
    from demeter.uniswap.liquitidy_math import get_sqrt_ratio_at_tick as ratio

    data = json.load(open(path))
    c = data["case"]
    part = Part()
    fn = c["fn"]
    if fn in ("get_sqrt_ratio_at_tick", "sqrt_price_x96_to_tick"):
        a = abs(c["tick"])
        r = work_ticks((0, a, a, "none", []))
        part.violations = r["violations"]
    elif fn in ("tick_price_roundtrip", "price_sqrt_roundtrip", "sqrt_price_price"):
        check_helpers(part, H, c["tick"])
    elif fn == "nearest_usable_tick":
        check_nearest(part, H, c["tick"], c["spacing"])
    elif fn == "market.price_to_tick":
        market_wrappers(part)
    for sig, v in part.violations.items():
        print("reproduced:", sig, v[0], v[2])
    print("REPLAY", "violations" if part.violations else "clean")
    return 1 if part.violations else 0
