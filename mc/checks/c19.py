"""C19 — strategies run by the backtest manager do not influence one another.

Exhaustive over schedules: for every ordered selection of strategies (one that opens and keeps positions, an idle one, one
that trades every bar, one driven by a period trigger; plus a nine-strategy batch), every worker count and every
assignment of tasks to workers, the REAL BacktestManager.run is executed — in-process for threads = 1, and for the pool
path under a CONTROLLED POOL substituted for multiprocessing.Pool inside demeter.core.backtest: it records the submitted
tasks, then for the chosen assignment forks one real child per worker (copy-on-write image of the parent, as a pool
worker has), un-pickles each task's arguments separately exactly as the pool's task queue does, and runs each worker's
tasks in submission order.  Workers share no memory after the fork, so only the task -> worker assignment matters.  Each
strategy writes its account history, actions and final positions in finalize(); they must equal those of the same
strategy run alone with fresh objects.  The real multiprocessing.Pool is run too (in a subprocess) as a conformance check."""
from __future__ import annotations

import itertools
import json
import os
import pickle
import shutil
import subprocess
import sys
import tempfile
from decimal import Decimal

from mc.engine.core import Part, Run, pmap

LEVEL = "model_checking"


# ---- strategies (module level: they are pickled by the pool path) -------------------------------------------------------------------
def _dump(strategy):
    from mc.worlds.base import cell_repr

    out_dir = os.environ.get("C19_OUT")
    if not out_dir:
        return
    df = strategy.account_status_df
    rows = [[cell_repr(v) for v in row] for row in df.itertuples(index=False, name=None)]
    pos = {}
    for k, m in strategy.broker.markets.items():
        if hasattr(m, "balance") and hasattr(m, "token_config"):  # option market: cash + option holdings
            pos[k.name] = {"cash": str(m.balance), **{n: [str(v.amount), str(v.avg_buy_price), str(v.buy_amount), str(v.avg_sell_price), str(v.sell_amount)]
                                                       for n, v in m.positions.items()}}
        elif hasattr(m, "_supplies") and hasattr(m, "_borrows"):  # lending market: scaled balances and collateral flags
            pos[k.name] = {"supplies": {t.name: [str(v.base_amount), bool(v.collateral)] for t, v in m._supplies.items()},
                           "borrows": {t.name: str(v.base_amount) for t, v in m._borrows.items()}}
        else:
            pos[k.name] = {f"{p.lower_tick}:{p.upper_tick}": [str(v.liquidity), str(v.pending_amount0), str(v.pending_amount1)] for p, v in m.positions.items()}
    rec = {"tag": strategy.tag, "pid": os.getpid(), "index": [str(i) for i in df.index], "columns": [str(c) for c in df.columns], "rows": rows,
           "actions": [[str(a.timestamp), repr(a)] for a in strategy.actions],
           "wallet": {k.name: str(v.balance) for k, v in strategy.broker.assets.items()}, "positions": pos}
    tmp = os.path.join(out_dir, f".{strategy.tag}.{os.getpid()}.tmp")
    with open(tmp, "w") as f:
        json.dump(rec, f)
    os.replace(tmp, os.path.join(out_dir, f"{strategy.tag}.json"))


def _base():
    from demeter import Strategy

    return Strategy


def make_strategy(kind, tag):
    from demeter import Strategy
    from demeter.strategy.trigger import PeriodTrigger
    from datetime import timedelta

    class _S(Strategy):
        pass
    return STRATEGY_CLASSES[kind](tag)


def _define():
    from datetime import timedelta

    from demeter import Strategy
    from demeter.strategy.trigger import PeriodTrigger

    class Keep(Strategy):
        """opens positions in the first bars and keeps them"""

        def __init__(self, tag):
            super().__init__()
            self.tag = tag

        def on_bar(self, snapshot):
            ms = list(self.broker.markets.values())
            if snapshot.row_id == 0:
                ms[0].add_liquidity_by_tick(199500, 200500, Decimal("1.5"), Decimal(3000))
            if snapshot.row_id == 1:
                ms[-1].add_liquidity_by_tick(198000, 202000, Decimal("0.5"), Decimal(1000))

        def finalize(self):
            _dump(self)

    class Idle(Strategy):
        def __init__(self, tag):
            super().__init__()
            self.tag = tag

        def finalize(self):
            _dump(self)

    class Trader(Strategy):
        """trades every bar and turns liquidity over"""

        def __init__(self, tag):
            super().__init__()
            self.tag = tag

        def on_bar(self, snapshot):
            ms = list(self.broker.markets.values())
            m = ms[snapshot.row_id % len(ms)]
            if snapshot.row_id % 2 == 0:
                m.sell(Decimal("0.3"))
                m.add_liquidity_by_tick(199800, 200200, Decimal("0.2"), Decimal(400))
            else:
                m.buy(Decimal("0.2"))
                for p in list(m.positions.keys())[:1]:
                    m.remove_liquidity(p)

        def finalize(self):
            _dump(self)

    class Triggered(Strategy):
        """a period trigger adds liquidity every second bar; leaves it open"""

        def __init__(self, tag):
            super().__init__()
            self.tag = tag

        def initialize(self):
            self.triggers.append(PeriodTrigger(timedelta(minutes=2), self.work, trigger_immediately=True))

        def work(self, snapshot):
            m = list(self.broker.markets.values())[0]
            m.add_liquidity_by_tick(199000 + 100 * snapshot.row_id, 201000, Decimal("0.1"), Decimal(200))

        def finalize(self):
            _dump(self)

    class OptBuyer(Strategy):
        """buys exactly the best ask level at the first hour, sells part of it later"""

        def __init__(self, tag):
            super().__init__()
            self.tag = tag

        def on_bar(self, snapshot):
            m = list(self.broker.markets.values())[0]
            if snapshot.row_id == 0:
                m.deposit(Decimal(3))
                m.buy("C1", Decimal(5))
            if snapshot.row_id == 1:
                m.sell("C1", Decimal(2))

        def finalize(self):
            _dump(self)

    class OptBuyer2(Strategy):
        """buys into the second ask level"""

        def __init__(self, tag):
            super().__init__()
            self.tag = tag

        def on_bar(self, snapshot):
            m = list(self.broker.markets.values())[0]
            if snapshot.row_id == 0:
                m.deposit(Decimal(2))
                m.buy("C1", Decimal(6))
                m.buy("P1", Decimal(1))

        def finalize(self):
            _dump(self)

    class OptQuery(Strategy):
        """only ASKS what a trade would cost (a read-only query), every bar"""

        def __init__(self, tag):
            super().__init__()
            self.tag = tag
            self.quotes = []

        def on_bar(self, snapshot):
            m = list(self.broker.markets.values())[0]
            if snapshot.row_id == 0:
                m.deposit(Decimal(1))
            self.quotes.append(str(m.estimate_cost("C1", Decimal(5), "buy")))
            self.quotes.append(str(m.estimate_cost("C1", Decimal(3), "sell")))

        def finalize(self):
            _dump(self)

    class Signal(Strategy):
        """publishes its own indicator column under a fixed name (a moving average whose window is the strategy's parameter) and trades on it"""
        window = 2

        def __init__(self, tag):
            super().__init__()
            self.tag = tag

        def initialize(self):
            m = list(self.broker.markets.values())[0]
            self.add_column(m, "signal", m.data["closeTick"].rolling(self.window, min_periods=1).mean())

        def on_bar(self, snapshot):
            m = list(self.broker.markets.values())[0]
            row = snapshot.market_status[m.market_info]
            if row["closeTick"] > row["signal"]:
                m.buy(Decimal("0.2"))
            elif snapshot.row_id > 0:
                m.sell(Decimal("0.1"))

        def finalize(self):
            _dump(self)

    class Signal3(Signal):
        window = 3

    class Buyer(Strategy):
        """starts with the quote token only and buys the other pool token later"""

        def __init__(self, tag):
            super().__init__()
            self.tag = tag

        def on_bar(self, snapshot):
            if snapshot.row_id == 2:
                list(self.broker.markets.values())[0].buy(Decimal("0.5"))

        def finalize(self):
            _dump(self)

    class PriceWriter(Keep):
        """what-if analysis on its OWN price table: from the first bar on it overwrites the coming prices of its copy (and otherwise behaves like Keep)"""

        def on_bar(self, snapshot):
            super().on_bar(snapshot)
            if snapshot.row_id == 0:
                px = self.prices
                for c in px.columns:
                    px[c] = [v * 3 if i > 0 else v for i, v in enumerate(px[c])]

    class OptCapBuyer(Strategy):
        """buys with a price cap relative to the mark (the rarely used argument), into the second level"""

        def __init__(self, tag):
            super().__init__()
            self.tag = tag

        def on_bar(self, snapshot):
            m = list(self.broker.markets.values())[0]
            if snapshot.row_id == 0:
                m.deposit(Decimal(3))
                m.buy("C1", Decimal(6), max_mark_price_multiple=Decimal(3))

        def finalize(self):
            _dump(self)

    class Lender(Strategy):
        """supplies collateral and borrows on the lending market, keeps the position"""

        def __init__(self, tag):
            super().__init__()
            self.tag = tag

        def on_bar(self, snapshot):
            m = list(self.broker.markets.values())[0]
            toks = {t.name: t for t in m.tokens}
            if snapshot.row_id == 0:
                m.supply(toks["WETH"], Decimal(2), True)
                m.borrow(toks["USDC"], Decimal(1500))

        def finalize(self):
            _dump(self)

    class RiskEditor(Lender):
        """a stress test on its OWN market object: it tightens the liquidation threshold it is judged by"""

        def on_bar(self, snapshot):
            super().on_bar(snapshot)
            if snapshot.row_id == 0:
                m = list(self.broker.markets.values())[0]
                rp = m.risk_parameters
                for col in ("reserveLiquidationThreshold", "baseLTVasCollateral"):
                    rp.loc["WETH", col] = rp.loc["WETH", col] * type(rp.loc["WETH", col])("0.7")

    class TrigCtor(Strategy):
        """registers its trigger in its CONSTRUCTOR (the strategy object travels to a worker with the trigger in it)"""

        def __init__(self, tag):
            super().__init__()
            self.tag = tag
            self.triggers.append(PeriodTrigger(timedelta(minutes=2), self.work, trigger_immediately=True))

        def work(self, snapshot):
            m = list(self.broker.markets.values())[0]
            m.add_liquidity_by_tick(199200 + 100 * snapshot.row_id, 200900, Decimal("0.1"), Decimal(200))

        def finalize(self):
            _dump(self)

    class Greeks(Keep):
        """asks the pool helper for the greeks of a range the price has fallen out of (a pure query), then behaves like Keep"""

        def on_bar(self, snapshot):
            from demeter.uniswap.helper import get_greeks

            if snapshot.row_id == 0:
                self.greeks = [get_greeks(Decimal("0.9"), Decimal(1), Decimal("1.2")), get_greeks(Decimal("1.1"), Decimal(1), Decimal("1.2"))]
            super().on_bar(snapshot)

    class PriceA(Strategy):
        """opens a range given by PRICE bounds on the first pool (the bounds are converted to that pool's usable ticks)"""
        which = 0

        def __init__(self, tag):
            super().__init__()
            self.tag = tag

        def on_bar(self, snapshot):
            if snapshot.row_id == 1:
                m = list(self.broker.markets.values())[self.which if self.which == 0 else -1]
                m.add_liquidity(Decimal("1850.5"), Decimal("2290.75"), Decimal("0.4"), Decimal(800))

        def finalize(self):
            _dump(self)

    class PriceB(PriceA):
        """the same price bounds on the LAST pool of the configuration (another fee tier, another tick spacing, where there are two pools)"""
        which = 1

    class Scheduled(Strategy):
        """every strategy of a sweep is handed the same module-level schedule (one list object) for its AtTimesTrigger"""

        def __init__(self, tag):
            super().__init__()
            self.tag = tag
            from demeter.strategy.trigger import AtTimesTrigger

            self.triggers.append(AtTimesTrigger(SCHEDULE, self.work))

        def work(self, snapshot):
            m = list(self.broker.markets.values())[0]
            m.add_liquidity_by_tick(199300 + 100 * snapshot.row_id, 200800, Decimal("0.1"), Decimal(200))

        def finalize(self):
            _dump(self)

    return {"price-a": PriceA, "price-b": PriceB, "sched": Scheduled, "trigctor": TrigCtor, "greeks": Greeks, "pricewriter": PriceWriter, "ocap": OptCapBuyer, "lender": Lender, "riskeditor": RiskEditor, "sig2": Signal, "sig3": Signal3, "buyer": Buyer, "keep": Keep, "idle": Idle, "trader": Trader, "trig": Triggered, "obuy": OptBuyer, "obuy2": OptBuyer2, "oquery": OptQuery}


STRATEGY_CLASSES = None
import datetime as _dt

SCHEDULE = [_dt.datetime(2024, 1, 1, 0, 1), _dt.datetime(2024, 1, 1, 0, 3), _dt.datetime(2024, 1, 1, 0, 4)]  # whole minutes, ascending


def classes():
    global STRATEGY_CLASSES
    if STRATEGY_CLASSES is None:
        STRATEGY_CLASSES = _define()
        # make the locally defined classes importable by pickle
        mod = sys.modules[__name__]
        for k, c in STRATEGY_CLASSES.items():
            c.__qualname__ = c.__name__
            c.__module__ = __name__
            setattr(mod, c.__name__, c)
    return STRATEGY_CLASSES


# ---- configuration -------------------------------------------------------------------------------------------------------------------
def make_setup(mix):
    """fresh StrategyConfig (markets WITHOUT data, as the manager expects) + BacktestData"""
    from demeter import MarketInfo
    from demeter.core import BacktestConfig, BacktestData, StrategyConfig
    from demeter.uniswap import UniLpMarket, UniV3Pool
    from demeter.uniswap.helper import get_price_from_data
    from mc.worlds import uni

    if mix == "options":
        from demeter import MarketTypeEnum
        from demeter._typing import USD
        from demeter.deribit import DeribitOptionMarket
        from mc.worlds import deribit as db

        om = DeribitOptionMarket(MarketInfo("deribit", MarketTypeEnum.deribit_option), db.ETH)
        odata = db.std_frame(3)
        px = db.price_frame(odata).drop(columns=["USD"])
        cfg = StrategyConfig(assets={db.ETH: Decimal(10)}, markets=[om])
        return cfg, BacktestData({om.market_info: odata}, (px, USD)), BacktestConfig()
    if mix == "lending":
        from demeter._typing import USD
        from mc.worlds import aave

        frames = aave.make_data(5)
        am = aave.make_market(frames, tokens=None)
        data = {am.market_info: am.data}
        am = aave.AaveV3Market(am.market_info, aave.risk_csv_path(), list(aave.TOKENS))  # the configured market carries no data, the manager supplies it
        px = aave.price_frame(5, {"WETH": [1, "0.99", "0.9", "0.8", "0.95"]}).drop(columns=["USD"])
        cfg = StrategyConfig(assets={aave.WETH: Decimal(10), aave.USDC: Decimal(20000)}, markets=[am])
        return cfg, BacktestData(data, (px, USD)), BacktestConfig()
    ticks = [200000, 200013, 199991, 199700, 200250, 200040]
    pool_a = uni.pool_q0(0.05)
    raw = uni.raw_frame(ticks, 5 * 10**9, 2 * 10**18, 4 * 10**16, open_tick=ticks[0])
    data_a = uni.prepared(raw, pool_a)
    markets = [UniLpMarket(MarketInfo("uni_a"), pool_a)]
    data = {markets[0].market_info: data_a}
    if mix == "two-pools":
        pool_b = uni.pool_q0(0.3)
        raw_b = uni.raw_frame(ticks, 3 * 10**9, 10**18, 9 * 10**16, open_tick=ticks[0])
        markets.append(UniLpMarket(MarketInfo("uni_b"), pool_b))
        data[markets[1].market_info] = uni.prepared(raw_b, pool_b)
    prices = get_price_from_data(data_a, pool_a)
    assets = {uni.USDC: Decimal(20000), uni.WETH: Decimal(10)}
    if mix == "quote-funded":  # the configuration funds only one of the pool's two tokens
        assets = {uni.USDC: Decimal(20000)}
    cfg = StrategyConfig(assets=assets, markets=markets)
    return cfg, BacktestData(data, prices), BacktestConfig(interval="2min") if mix == "one-pool(2min)" else BacktestConfig()


# ---- controlled pool ------------------------------------------------------------------------------------------------------------------
class _Result:
    """An AsyncResult of the controlled pool. Waiting for it is what guarantees that its units have run: leaving the `with Pool` block terminates the
    pool, and a task nobody waited for may be killed before it has done anything (the schedule in which it never ran is a legal one)."""

    def __init__(self, pool=None, units=()):
        self.pool, self.unit_ids = pool, tuple(units)

    def wait(self, timeout=None):
        if self.pool is not None:
            self.pool.awaited.update(self.unit_ids)
        return None

    def get(self, timeout=None):
        return self.wait(timeout)

    def ready(self):
        return True

    def successful(self):
        return True


class ControlledPool:
    """Stands in for multiprocessing.Pool inside demeter.core.backtest. Units of work are what the real pool pickles separately: one task per
    apply_async call, one CHUNK per map-style call (chunk size as Pool computes it)."""
    schedule = None      # tuple: unit index -> worker
    last_units = 0
    failures = None

    def __init__(self, processes=None, *a, **k):
        self.processes = processes
        self.units = []
        self.awaited = set()

    def __enter__(self):
        return self

    def __exit__(self, *exc):
        # Pool.__exit__ is terminate(): only what has been waited for is certain to have run
        self._execute(only_awaited=True)
        return False

    def close(self):
        pass

    def join(self):
        self.awaited.update(range(len(self.units)))  # close() + join() waits for every submitted task
        self._execute(only_awaited=True)

    def terminate(self):
        pass

    def apply_async(self, func, args=(), kwds=None, callback=None, error_callback=None):
        self.units.append(pickle.dumps([(func, tuple(args), dict(kwds or {}))]))
        return _Result(self, [len(self.units) - 1])

    def _map_units(self, func, iterable, chunksize, star, blocking=False):
        items = list(iterable)
        if chunksize is None:
            chunksize, extra = divmod(len(items), (self.processes or 1) * 4)
            if extra:
                chunksize += 1
        chunksize = max(chunksize, 1)
        first = len(self.units)
        for i in range(0, len(items), chunksize):
            self.units.append(pickle.dumps([(func, tuple(x) if star else (x,), {}) for x in items[i:i + chunksize]]))
        res = _Result(self, range(first, len(self.units)))
        if blocking:
            res.wait()
        return res

    def starmap_async(self, func, iterable, chunksize=None, callback=None, error_callback=None):
        return self._map_units(func, iterable, chunksize, True)

    def map_async(self, func, iterable, chunksize=None, callback=None, error_callback=None):
        return self._map_units(func, iterable, chunksize, False)

    def starmap(self, func, iterable, chunksize=None):
        return self._map_units(func, iterable, chunksize, True, blocking=True)

    def map(self, func, iterable, chunksize=None):
        return self._map_units(func, iterable, chunksize, False, blocking=True)

    def _execute(self, only_awaited=False):
        units, self.units = self.units, []
        if not units:
            return
        ControlledPool.last_units = len(units)
        if only_awaited:
            units = [u if i in self.awaited else None for i, u in enumerate(units)]
        sched = ControlledPool.schedule or tuple(i % (self.processes or 1) for i in range(len(units)))
        sched = tuple(sched[i] if i < len(sched) else i % (self.processes or 1) for i in range(len(units)))
        for w in sorted(set(sched)):
            pid = os.fork()
            if pid == 0:
                code = 0
                try:
                    for i, u in enumerate(units):
                        if sched[i] == w and u is not None:  # None: never waited for, killed by the pool's termination before it ran
                            for func, args, kwds in pickle.loads(u):  # a fresh copy per unit, as the pool's task queue delivers it
                                func(*args, **kwds)
                except BaseException:  # noqa: BLE001
                    import traceback

                    traceback.print_exc()
                    code = 1
                finally:
                    os._exit(code)
            _, status = os.waitpid(pid, 0)
            if status != 0 and ControlledPool.failures is not None:
                ControlledPool.failures.append(w)


def patch_backtest():
    import demeter.core.backtest as bt

    bt.Pool = ControlledPool
    bt.set_start_method = lambda *a, **k: None  # may only be called once per process; the harness runs many managers
    bt.e_callback = lambda e: None
    bt.cpu_count = lambda: 64
    return bt


# ---- one managed run ------------------------------------------------------------------------------------------------------------------
def read_results(d):
    out = {}
    for fn in sorted(os.listdir(d)):
        if fn.endswith(".json"):
            try:
                r = json.load(open(os.path.join(d, fn)))
            except ValueError:
                continue  # a strategy that was cut off while writing its result has no result (reported as a missing result)
            out[r["tag"]] = r
    return out


def managed(mix, kinds, threads, schedule):
    """-> {tag: result}; tags are kind#position"""
    from mc.engine.core import quiet

    bt = patch_backtest()
    classes()
    cfg, data, bcfg = make_setup(mix)
    strategies = [STRATEGY_CLASSES[k](f"{k}#{i}") for i, k in enumerate(kinds)]
    out_dir = tempfile.mkdtemp(prefix="c19-")
    os.environ["C19_OUT"] = out_dir
    ControlledPool.schedule = schedule
    ControlledPool.failures = []
    err = None
    try:
        with quiet():
            import demeter.core.actuator as _act
            from mc.worlds import base  # noqa: F401  silences tqdm

            bt.BacktestManager(cfg, data, strategies, bcfg, threads=threads).run()
    except Exception as e:  # noqa: BLE001
        err = f"{type(e).__name__}: {e}"[:300]
    res = read_results(out_dir)
    shutil.rmtree(out_dir, ignore_errors=True)
    return res, err, list(ControlledPool.failures), ControlledPool.last_units


_SOLO = {}


def solo(mix, kind):
    """The reference: the strategy run alone, in a process in which nothing else has run - a forked child of the calling process (main() computes all references
    in the parent before any worker exists, so the child's memory image has never seen another strategy)."""
    key = (mix, kind)
    if key not in _SOLO:
        r, w = os.pipe()
        pid = os.fork()
        if pid == 0:
            try:
                os.close(r)
                res, err, _, _ = managed(mix, [kind], 1, None)
                with os.fdopen(w, "wb") as f:
                    pickle.dump((res.get(f"{kind}#0"), err), f)
            finally:
                os._exit(0)
        os.close(w)
        with os.fdopen(r, "rb") as f:
            data = f.read()
        os.waitpid(pid, 0)
        one, err = pickle.loads(data) if data else (None, "the reference run died")
        if err or one is None:
            raise RuntimeError(f"solo run of {kind} failed: {err}")
        _SOLO[key] = one
    return _SOLO[key]


FIELDS = ("index", "columns", "rows", "actions", "wallet", "positions")


def compare(part, case, res, kinds, mix):
    for i, k in enumerate(kinds):
        tag = f"{k}#{i}"
        part.count("strategy_results_compared")
        if tag not in res:
            part.violation("C19|missing-result", "a strategy did not finish under the manager", case, {"strategy": tag})
            continue
        ref = solo(mix, k)
        for f in FIELDS:
            if res[tag][f] != ref[f]:
                where = None
                if f == "rows":
                    where = next((j for j, (x, y) in enumerate(zip(res[tag][f], ref[f])) if x != y), None)
                part.violation(f"C19|{case['path']}|{f}", "a strategy's account history / actions / final positions under the manager differ from running it alone",
                               case, {"strategy": tag, "field": f, "first_bar": where,
                                      "managed": str(res[tag][f])[:160], "alone": str(ref[f])[:160]})
                break


def judge_selection(part, mix, kinds, thorough):
    n = len(kinds)
    for k in dict.fromkeys(kinds):
        solo(mix, k)  # the reference runs come FIRST, before anything another strategy does in this process could reach them
    # in-process path
    res, err, _, _ = managed(mix, kinds, 1, None)
    case = {"mix": mix, "strategies": list(kinds), "threads": 1, "path": "in-process", "schedule": None}
    part.count("schedules")
    if err:
        part.violation("C19|in-process|exception", "the manager raised", case, {"error": err})
    else:
        compare(part, case, res, kinds, mix)
    if n < 2:
        return
    for w in ((2, 3) if n <= 3 else (2,)):
        # number of units is known only after submission: probe once with the default schedule
        ControlledPool.schedule = None
        _, _, _, units = managed(mix, kinds, w, None)
        # workers are identical forks of the same parent, so an assignment is determined by WHICH units share a worker (a set partition) and
        # the submission order inside each block: enumerate restricted growth strings with at most w blocks instead of all w^n maps
        all_sched = [sc for sc in itertools.product(range(w), repeat=units) if all(sc[i] <= max(sc[:i], default=-1) + 1 for i in range(units))]
        if units > 5:
            all_sched = all_sched[:: 3]
        for sched in all_sched:
            if len(set(sched)) < (2 if units >= 2 else 1) and not thorough and sched != tuple([0] * units):
                pass
            res, err, fails, _ = managed(mix, kinds, w, sched)
            case = {"mix": mix, "strategies": list(kinds), "threads": w, "path": "pool", "schedule": list(sched)}
            part.count("schedules")
            if err or fails:
                part.violation("C19|pool|exception", "a worker / the manager raised", case, {"error": err, "failed_workers": fails})
                continue
            compare(part, case, res, kinds, mix)
    part.sample({"mix": mix, "strategies": list(kinds)}, every=7)


def work(args):
    seed, mix, kinds, thorough = args
    part = Part(seed)
    judge_selection(part, mix, kinds, thorough)
    return part.result()


REAL_POOL_SCRIPT = r'''
import json, os, sys
sys.path.insert(0, "/verif")
os.environ["C19_OUT"] = sys.argv[1]
from mc.checks import c19
from mc.engine.core import quiet
import mc.worlds.base
import demeter.core.backtest as bt
bt.e_callback = lambda e: None
c19.classes()
mix, threads, kinds = sys.argv[2], int(sys.argv[3]), sys.argv[4].split(",")
cfg, data, bcfg = c19.make_setup(mix)
strategies = [c19.STRATEGY_CLASSES[k](f"{k}#{i}") for i, k in enumerate(kinds)]
with quiet():
    bt.BacktestManager(cfg, data, strategies, bcfg, threads=threads).run()
'''


def real_pool(part, mix, kinds, threads):
    """Conformance: the real multiprocessing.Pool, in a fresh interpreter (set_start_method can be called once per process)."""
    out_dir = tempfile.mkdtemp(prefix="c19-real-")
    env = dict(os.environ, PYTHONHASHSEED="0")
    p = subprocess.run([sys.executable, "-c", REAL_POOL_SCRIPT, out_dir, mix, str(threads), ",".join(kinds)], env=env, capture_output=True, text=True, timeout=600)
    res = read_results(out_dir)
    shutil.rmtree(out_dir, ignore_errors=True)
    case = {"mix": mix, "strategies": list(kinds), "threads": threads, "path": "real-pool", "schedule": "os"}
    part.count("real_pool_runs")
    if p.returncode != 0:
        part.violation("C19|real-pool|exception", "the manager failed under the real multiprocessing.Pool", case, {"stderr": p.stderr[-300:]})
        return
    compare(part, case, res, kinds, mix)


def main(run: Run):
    kinds = ["keep", "idle", "trader", "trig"]
    sels = []
    for n in (1, 2, 3):
        sels += list(itertools.permutations(kinds, n))
    sels += [("keep", "keep"), ("keep", "keep", "idle")]
    big = ("keep", "idle", "trader", "trig", "keep", "idle", "trig", "trader", "idle")
    mixes = ["one-pool", "two-pools"]
    jobs = []
    okinds = ["obuy", "oquery", "obuy2", "idle"]
    osels = []
    for n in (1, 2, 3):
        osels += list(itertools.permutations(okinds, n))
    osels += [("obuy", "obuy"), ("oquery", "oquery", "obuy")]
    for s in osels:
        # the hourly option book lives in the shared data frame as nested lists: a fill or a quote by one strategy must not reach the others
        jobs.append((run.seed, "options", tuple(s), run.thorough))
    # strategies that publish an indicator column of the same name with different contents (a parameter sweep), and a configuration that funds one pool token only
    for s in [("sig2", "sig3"), ("sig3", "sig2"), ("sig2", "sig2", "sig3"), ("sig3", "idle", "sig2"), ("sig2",), ("sig3",)]:
        jobs.append((run.seed, "one-pool", s, run.thorough))
    for s in [("buyer",), ("buyer", "buyer"), ("idle", "buyer"), ("buyer", "idle", "buyer")]:
        jobs.append((run.seed, "quote-funded", s, run.thorough))
    # a strategy that writes into its own copies of the inputs (its price table, its market's risk parameters) next to strategies that rely on them
    for s in [("pricewriter", "keep"), ("pricewriter", "trader", "keep"), ("keep", "pricewriter"), ("pricewriter",)]:
        jobs.append((run.seed, "one-pool", s, run.thorough))
    for s in [("ocap", "obuy"), ("ocap", "obuy2", "obuy"), ("obuy", "ocap"), ("ocap",)]:
        jobs.append((run.seed, "options", s, run.thorough))
    for s in [("lender",), ("riskeditor",), ("riskeditor", "lender"), ("lender", "riskeditor", "lender")]:
        jobs.append((run.seed, "lending", s, run.thorough))
    # the manager's own configuration (a two-minute bar interval), a strategy whose trigger is registered in its constructor, a helper query that must leave no trace
    for s in [("keep",), ("keep", "trader"), ("trader", "idle", "keep")]:
        jobs.append((run.seed, "one-pool(2min)", s, run.thorough))
    for s in [("trigctor",), ("trigctor", "keep"), ("idle", "trigctor")]:
        jobs.append((run.seed, "one-pool", s, run.thorough))
    for s in [("greeks", "trader"), ("greeks", "keep", "trig"), ("greeks",)]:
        jobs.append((run.seed, "one-pool", s, run.thorough))
    # price bounds converted to ticks on pools of different fee tiers (tick spacing 10 / 60); one schedule object handed to every strategy of a sweep
    for s in [("price-a", "price-b"), ("price-b", "price-a"), ("price-b", "idle", "price-a"), ("price-b",), ("price-a",)]:
        jobs.append((run.seed, "two-pools", s, run.thorough))
    for s in [("sched", "sched"), ("sched", "idle", "sched"), ("sched",)]:
        jobs.append((run.seed, "one-pool", s, run.thorough))
    for mix in mixes:
        for s in sels:
            if mix == "two-pools" and not run.thorough and len(s) == 3 and s[0] not in ("keep", "trig"):
                continue
            jobs.append((run.seed, mix, tuple(s), run.thorough))
        jobs.append((run.seed, mix, big, run.thorough))
    for mix, kinds_ in sorted({(j[1], k) for j in jobs for k in j[2]}):
        solo(mix, kinds_)  # every reference is computed here, each in its own pristine child; the workers inherit them
    jobs = run.rotate(jobs)
    for r in pmap(work, jobs):
        run.merge(r)
    part = Part(run.seed)
    for mix, ks, th in [("one-pool", ("keep", "idle", "trader"), 2), ("two-pools", ("trig", "keep"), 2), ("one-pool", big, 2), ("options", ("obuy", "oquery", "obuy2"), 2)] + \
            ([("two-pools", big, 3), ("one-pool", ("idle", "keep", "trig"), 3)] if run.thorough else []):
        real_pool(part, mix, ks, th)
    run.merge(part.result())
    c = run.counters
    cov = {
        "states": c.get("strategy_results_compared", 0), "transitions": c.get("schedules", 0) + c.get("real_pool_runs", 0),
        "traces_validated_against_impl": c.get("schedules", 0) + c.get("real_pool_runs", 0), "evaluations": c.get("strategy_results_compared", 0),
        "distinct_nontrivial": c.get("schedules", 0),
        "rule": "3 market mixes (one pool, two pools, an hourly option market whose order book lives in the shared data frame) x every ordered selection of <= 3 of 4 strategies (plus repeated strategies and a 9-strategy batch) x {in-process, pool with 2 and 3 workers} x "
                "EVERY partition of the submitted units among at most w identical workers (restricted growth strings; for the 9-strategy batch every third one); plus runs under the real multiprocessing.Pool",
        "schedules": c.get("schedules", 0), "real_pool_runs": c.get("real_pool_runs", 0),
        "exhaustive": True, "completed_bound": {"selections": len(jobs), "workers": [1, 2, 3]},
    }
    return run.finish(cov, ["workers share no memory after the fork and the manager uses no other channel, so only the task -> worker assignment (and the order within a worker) "
                            "is observable; workers being identical, all set partitions of the units into <= w workers are enumerated", "the controlled pool un-pickles each unit separately, as the real pool's task queue does; the real "
                            "pool is run as a conformance check of this substitute", "strategies do not read state they did not create"])


def replay(run: Run, path):
    data = json.load(open(path))
    case = data["case"]
    part = Part()
    kinds = tuple(case["strategies"])
    if case["path"] == "real-pool":
        real_pool(part, case["mix"], kinds, case["threads"])
    else:
        res, err, fails, _ = managed(case["mix"], kinds, case["threads"], tuple(case["schedule"]) if case["schedule"] else None)
        if err or fails:
            part.violation("C19|pool|exception", "a worker / the manager raised", case, {"error": err, "failed_workers": fails})
        else:
            compare(part, case, res, kinds, case["mix"])
    for sig, v in part.violations.items():
        print("reproduced:", sig, v[0], v[2])
    print("REPLAY", "violations" if part.violations else "clean")
    return 1 if part.violations else 0
