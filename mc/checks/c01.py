"""C01 — at every bar the reported net value equals an independent valuation of wallet plus positions.

Actuator driver: every world (single markets in both quote orientations, a market quoted in another token than the
account, Aave over a price / index path with a liquidating bar, Squeeth + its pool with LP positions lent to vaults,
options alone and beside a minutely pool, GLP, GM, and two-market accounts) is run by the REAL Actuator.run with a
scripted strategy; the script = a seeded portfolio built in bar 0 plus one (thorough: two) further operations placed
in every bar x {on_bar, after_bar}.  At every bar the AccountStatus the actuator recorded (net value, asset value,
each market's net value) is compared with the reference valuation computed from raw fields only."""
from __future__ import annotations

import itertools
import json
from decimal import Decimal
from fractions import Fraction

from mc.engine.core import Part, Run, chunks, pmap
from mc.worlds import actdrv
from mc.worlds.kit import F

LEVEL = "model_checking"


def worlds():
    from mc.worlds import registry

    d = {k: v for k, v in registry.WORLDS.items() if not k.endswith("(closed)")}  # a frozen-bar variant of a path world below
    d.update({k: v for k, v in registry.PATH_WORLDS.items() if k not in ("deribit(many)+uni", "deribit(cut)")})  # same markets as deribit+uni, built for C05's bar-index question

    def overdraft():
        # an account that may go into the red (Actuator(allow_negative_balance=True)): oversized purchases are accepted, a negative balance is a debt
        w = registry.WORLDS["uni(q0)"]()
        w.name = "uni(q0,overdraft)"
        w.allow_negative = True
        return w
    d["uni(q0,overdraft)"] = overdraft
    return d


def tolerance(adapter, ref: Fraction) -> Fraction:
    """How far the implementation's own rounding may put a market's value from the exact reference."""
    kind = adapter.kind
    if kind == "aave":
        return Fraction(2, 10**4)  # get_market_balance quantises to 1e-4
    if kind in ("squeeth", "gmx2"):
        return Fraction(1, 10**9) * max(abs(ref), 1)  # float TWAP / float GM arithmetic
    if kind == "uni":
        # the pool math floors amounts to the tokens' smallest units, per position and token
        m = adapter.market
        n = max(len(m._positions), 1)
        price = F(m.market_status.data.price)
        unit0, unit1 = Fraction(1, 10**m.pool_info.token0.decimal), Fraction(1, 10**m.pool_info.token1.decimal)
        v = (unit0 + unit1 * price) if m.pool_info.is_token0_quote else (unit0 * price + unit1)
        return 3 * n * v + Fraction(1, 10**20) * max(abs(ref), 1)
    return Fraction(1, 10**18) * max(abs(ref), 1)


def observe(ctx, snapshot):
    """Reference valuation from raw fields, taken in after_bar (after update(), right before the actuator records the bar)."""
    from mc.worlds import siblings

    siblings.churn(ctx.index[ctx.bar], {a.kind for a in ctx.adapters})  # the other instances alive in the process are used once more right before the bar is valued
    row = ctx.price_row()
    wallet = sum((F(v) * F(row[k]) for k, v in ctx.wallet().items()), Fraction(0))
    markets = {}
    total = wallet
    tol_total = Fraction(0)
    for a in ctx.adapters:
        v = a.ref_value()
        q = a.market.quote_token
        conv = F(row[q.name]) if q != ctx.broker.quote_token else Fraction(1)
        tol = tolerance(a, v)
        if a.kind == "squeeth":  # its LP collateral goes through the pool's integer math too
            tol += tolerance(a.ua, v)
        markets[a.market.market_info.name] = (v, tol)
        total += v * conv
        tol_total += tol * conv
    return {"bar": ctx.bar, "wallet": wallet, "markets": markets, "total": total, "tol": tol_total,
            "transferred": [k for a in ctx.adapters if a.kind == "uni" for k, p in a.market._positions.items() if p.transferred]}


def judge(part, wname, world, script):
    run = actdrv.Run(world, script, observe=observe, look_first=True).go()
    case = {"world": wname, "script": [list(s) for s in script]}
    part.count("runs")
    if run.error is not None:
        sig_err = run.error.split(":")[0]
        part.violation(f"C01|run|exception|{sig_err}", "the backtest raised", case, {"error": run.error, "outcomes": [o[:4] for o in run.outcomes]})
        return
    acc = run.act.account_status
    if len(acc) != len(run.observations):
        part.violation("C01|bars|count", "account status list and bars differ in length", case, {"status": len(acc), "bars": len(run.observations)})
        return
    part.count("accepted_ops", sum(1 for o in run.outcomes if o[3] == "ok"))
    part.count("rejected_ops", sum(1 for o in run.outcomes if o[3] == "rejected"))
    for st, ob in zip(acc, run.observations):
        part.count("bars_compared")
        if ob["transferred"]:
            part.count("bars_with_lent_lp")
        d = {"bar": ob["bar"], "outcomes": [o[:4] for o in run.outcomes]}
        if st.net_value is None or not Decimal(st.net_value).is_finite():
            part.violation("C01|net_value|not-a-number", "reported net value is not a number", case, dict(d, reported=str(st.net_value)))
            continue
        if abs(F(st.asset_value) - ob["wallet"]) > Fraction(1, 10**20) * max(abs(ob["wallet"]), 1):
            part.violation("C01|asset_value", "reported wallet value differs from balances x that bar's prices", case,
                           dict(d, reported=str(st.asset_value), reference=float(ob["wallet"])))
        for k, ms in st.market_status.items():
            ref, tol = ob["markets"][k.name]
            part.count("market_values_compared")
            nv = ms.net_value
            if nv is None or abs(F(nv) - ref) > tol:
                part.violation(f"C01|market|{k.name}", "a market's reported net value differs from the value of its positions under that bar's data", case,
                               dict(d, market=k.name, reported=str(nv), reference=float(ref)))
        if abs(F(st.net_value) - ob["total"]) > ob["tol"] + Fraction(1, 10**20) * max(abs(ob["total"]), 1):
            part.violation("C01|net_value", "reported account net value differs from wallet + positions (each counted once, converted to the account's quote token)",
                           case, dict(d, reported=str(st.net_value), reference=float(ob["total"])))
    part.sample({"world": wname, "script": [list(s) for s in script], "bars": len(acc)}, every=211)


def scripts_for(world, thorough):
    """Seeded portfolio in bar 0 (on_bar), then one / two further operations in every bar x hook."""
    from mc.worlds import catalog, kit

    catalog.AUTO_BEGIN[0] = False
    try:
        ctx = world.build()
    finally:
        catalog.AUTO_BEGIN[0] = True
    n_bars = len(ctx.index)
    ctx.begin_bar(0)
    out = []
    bars = sorted(set([0, 1, 2, n_bars - 1]) & set(range(n_bars)))
    if n_bars > 60:
        bars = [0, 1, 30, 60, n_bars - 1]  # an hourly co-market: open bars 0 / 60, closed bars 1 / 30
    for root in world.roots:
        c2, outs = kit.replay_history(lambda: _fresh0(world), world.alphabet, root)
        ops = world.alphabet(c2)
        labels = [o.label for o in ops if not o.deviation]
        if world.name in ("deribit+uni", "deribit(many)+uni") and not thorough:
            # 121 bars per run: the pool's own operations are explored in the pool worlds, here two of them suffice beside the option market's
            labels = [l for l in labels if l.startswith("deribit.") or l in ("uni.add[in,part,part]", "uni.sell[part]")]
        dev = [o.label for o in ops if o.deviation and any(t in o.label for t in ("all", "None", "over", "lp"))][:: 3]
        # operations that are refused AFTER they have started to move things (a mint that hands an LP position in and is then found unsafe): what is left
        # behind must still be valued exactly once
        dev += [o.label for o in ops if o.deviation and o.label.endswith(",beyond,lp]") and o.label not in dev]
        if getattr(world, "allow_negative", False):
            dev += [o.label for o in ops if o.deviation and "over" in o.label and o.label not in dev]
        base = [(0, "on_bar", l) for l in root]
        out.append(base)
        for lab in labels + dev:
            for b in bars:
                for hook in ("on_bar", "after_bar"):
                    out.append(base + [(b, hook, lab)])
        if thorough:
            for l1, l2 in itertools.product(labels, repeat=2):
                for b1, b2 in ((0, 1), (1, 1), (1, 2), (0, n_bars - 1)):
                    if b2 < n_bars:
                        out.append(base + [(b1, "on_bar", l1), (b2, "after_bar", l2)])
    # dedup
    seen, res = set(), []
    for s in out:
        k = tuple(s)
        if k not in seen:
            seen.add(k)
            res.append(s)
    return res


def _fresh0(world):
    from mc.worlds import catalog

    catalog.AUTO_BEGIN[0] = False
    try:
        ctx = world.build()
    finally:
        catalog.AUTO_BEGIN[0] = True
    ctx.begin_bar(0)
    return ctx


def work(args):
    seed, wname, scripts = args
    part = Part(seed)
    world = worlds()[wname]()
    for s in scripts:
        judge(part, wname, world, [tuple(x) for x in s])
    return part.result()


def main(run: Run):
    jobs = []
    per_world = {}
    for wname, mk in worlds().items():
        world = mk()
        sc = scripts_for(world, run.thorough)
        per_world[wname] = len(sc)
        size = 10 if "deribit" in wname and "+uni" in wname else 40
        for ch in chunks(sc, max(1, len(sc) // size)):
            jobs.append((run.seed, wname, ch))
    jobs = run.rotate(jobs)
    for r in pmap(work, jobs):
        run.merge(r)
    c = run.counters
    cov = {
        "states": c.get("bars_compared", 0), "transitions": c.get("accepted_ops", 0) + c.get("rejected_ops", 0) + c.get("bars_compared", 0),
        "traces_validated_against_impl": c.get("runs", 0), "evaluations": c.get("market_values_compared", 0) + c.get("bars_compared", 0),
        "distinct_nontrivial": c.get("runs", 0),
        "rule": "per world: every seeded portfolio (built by real operations in bar 0) x every default operation (and a third of the boundary ones) x "
                "bar in {0, 1, 2, last} x hook in {on_bar, after_bar}" + ("; plus all ordered pairs of default operations in four bar placements" if run.thorough else "")
                + "; every bar of every run is compared",
        "runs_per_world": per_world, "bars_with_lent_lp": c.get("bars_with_lent_lp", 0),
        "accepted_ops": c.get("accepted_ops", 0), "rejected_ops": c.get("rejected_ops", 0),
        "exhaustive": True, "completed_bound": {"extra_operations": 2 if run.thorough else 1, "worlds": len(per_world)},
    }
    return run.finish(cov, ["reference valuation from raw fields only (wallet balances, _positions, scaled balances x that bar's indices, vault fields, option cash + "
                            "amount x mark, GLP x AUM / supply + reward, GM x pool value / supply); a lent LP position is valued in the vault (at the index price), not in the pool",
                            "tolerances: Aave 2e-4 absolute (API quantisation), float paths 1e-9 relative, pool math 3 smallest units per position and token, else 1e-18 relative"])


def replay(run: Run, path):
    data = json.load(open(path))
    case = data["case"]
    part = Part()
    world = worlds()[case["world"]]()
    judge(part, case["world"], world, [tuple(s) for s in case["script"]])
    for sig, v in part.violations.items():
        print("reproduced:", sig, v[0], v[2])
    print("REPLAY", "violations" if part.violations else "clean")
    return 1 if part.violations else 0
