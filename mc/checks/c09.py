"""C09 — token order is immaterial: a pool and its mirror give the same economic results.

Product exploration: a USDC/WETH pool quoted in token0 and its mirror WETH/USDC quoted in token1 (ticks negated, ranges
swapped and negated, per-token volumes swapped; also a WBTC/WETH pair with 8/18 decimals) are driven in lock-step by the
same sequence of operations EXPRESSED IN BASE / QUOTE TERMS on the real UniLpMarket objects.  After every step the two
worlds must agree on the operation's outcome (accepted / rejected), its returned base / quote amounts, liquidity and fees,
on wallets, positions and position values (1e-12 relative), and on the estimate-based helpers (add by value,
estimate_amount, estimate_liquidity) to 0.1 %."""
from __future__ import annotations

import json
from decimal import Decimal
from fractions import Fraction

from mc.engine.core import Part, Run, pmap
from mc.worlds import kit
from mc.worlds.kit import F

LEVEL = "model_checking"
EXACT = Fraction(1, 10**12)
ESTIM = Fraction(1, 10**3)
L0, U0 = 199500, 200500      # the reference range in token0-quote ticks (spacing 10)
STATES = {"below": L0 - 400, "just-below": L0 - 1, "just-inside-low": L0 + 1, "inside": 200013, "inside-off-grid": 199987, "just-inside-high": U0 - 1,
          "just-above": U0 + 1, "above": U0 + 400}
RANGES0 = {"in": (L0, U0), "lo": (L0 - 1500, L0 - 500), "hi": (U0 + 500, U0 + 1500), "wide": (L0 - 3000, U0 + 3000)}


def make_pair(state, decimals=(6, 18)):
    from demeter import TokenInfo
    from demeter.uniswap import UniV3Pool
    from demeter.uniswap.helper import get_price_from_data
    from mc.worlds import uni
    from mc.worlds.catalog import _decimal_prices
    from mc.worlds.kit import Ctx

    state, _, prep = state.partition("@")  # "@2min": minute rows resampled by the market; "@gap": a minute without a row, filled by the loader's rule
    if prep == "addr":
        # tokens that carry their contract addresses (as they do when data is loaded for lending markets): the pool's token order is what the pool SAYS it is -
        # the same pair on another chain has the addresses the other way round
        qt = TokenInfo("USDC", decimals[0], "0xA0b86991c6218b36c1d19D4a2e9Eb0cE3606eB48")
        bt = TokenInfo("WETH", decimals[1], "0xC02aaA39b223FE8D0A0e5C4F27eAD9083C756Cc2")
        if list(STATES).index(state) % 2:
            qt.address, bt.address = bt.address, qt.address
    else:
        qt = TokenInfo("USDC", decimals[0])
        bt = TokenInfo("WETH", decimals[1])
    shift = 0 if decimals == (6, 18) else int(round((decimals[1] - decimals[0] - 12) * 23025.85))  # keep the price scale: ticks move with the decimals gap
    t0 = STATES[state] + shift
    closes = [t0, t0 + 7, t0 - 260, t0 + 3]
    vol_q, vol_b = 5 * 10**(decimals[0] + 3), 2 * 10**decimals[1]
    # per-bar flow pattern: both tokens paid in, then (depending on the state) a bar with quote-token inflow only and one with base-token inflow only
    one_way_first = list(STATES).index(state) % 2 == 0
    pat_q = [1, 1, 0, 1] if one_way_first else [1, 1, 1, 0]
    pat_b = [1, 0, 1, 1] if one_way_first else [1, 1, 0, 1]
    vq = [vol_q * x * (i + 1) for i, x in enumerate(pat_q)]
    vb = [vol_b * x * (i + 1) for i, x in enumerate(pat_b)]
    out = []
    for orient in ("q0", "q1"):
        if orient == "q0":
            pool = UniV3Pool(qt, bt, 0.05, qt)
            ticks = list(closes)
            in0, in1 = vq, vb
            rng = {k: (a + shift, b + shift) for k, (a, b) in RANGES0.items()}
        else:
            pool = UniV3Pool(bt, qt, 0.05, qt)
            ticks = [-t for t in closes]
            in0, in1 = vb, vq
            rng = {k: (-(b + shift), -(a + shift)) for k, (a, b) in RANGES0.items()}
        if prep.endswith("min"):
            # k one-minute rows per bar with different flows every minute; the bar is what the repository's resampling rules make of them
            k = int(prep[:-3])
            sgn = 1 if orient == "q0" else -1
            m_ticks, m0, m1 = [], [], []
            for i, c in enumerate(ticks):
                for j in range(k):
                    m_ticks.append(c if j == k - 1 else c + sgn * (11 * j - 7))
                    m0.append(in0[i] * (j + 1) // (k * (k + 1) // 2) if j < k - 1 else in0[i] - sum(in0[i] * (jj + 1) // (k * (k + 1) // 2) for jj in range(k - 1)))
                    m1.append(in1[i] * (k - j) // (k * (k + 1) // 2) if j < k - 1 else in1[i] - sum(in1[i] * (k - jj) // (k * (k + 1) // 2) for jj in range(k - 1)))
            raw = uni.raw_frame(m_ticks, m0, m1, 4 * 10**16, open_tick=m_ticks[0])
            m = uni.make_market(pool, uni.prepared(raw, pool), "uni")
            m._resample(prep)  # repository code (demeter.uniswap.data.resample with the per-column rules)
            data = m.data
        elif prep == "gap":
            # the download has no row for a minute without swaps: the loader re-indexes to the full minute grid and fills by its per-column rules
            from demeter.uniswap.data import fillna as repo_fillna

            raw = uni.raw_frame(ticks[:2] + [ticks[1]] + ticks[2:], in0[:2] + [0] + in0[2:], in1[:2] + [0] + in1[2:], 4 * 10**16, open_tick=ticks[0])
            holed = raw.drop(raw.index[2]).reindex(raw.index)
            data = uni.prepared(repo_fillna(holed), pool)
            m = uni.make_market(pool, data, "uni")
        else:
            raw = uni.raw_frame(ticks, in0, in1, 4 * 10**16, open_tick=ticks[0])
            data = uni.prepared(raw, pool)
            m = uni.make_market(pool, data, "uni")
        price_df, quote = get_price_from_data(data, pool)
        prices = _decimal_prices(price_df)
        ctx = Ctx(f"uni({orient})", prices, quote, [_Plain(m)], [(qt, 10000), (bt, 5)], data.index)
        ctx.rng = rng
        ctx.orient = orient
        ctx.begin_bar(0)
        ctx.advance()  # now in bar 1 with the previous close known, so the fee path of bar 1 is [close 0, close 1] (it crosses a bound in the just-outside states)
        out.append(ctx)
    return out


class _Plain:
    """Minimal adapter (Ctx needs raw / negatives)."""
    kind = "uni"

    def __init__(self, market):
        self.market = market
        self.ctx = None

    def raw(self):
        return {"positions": {f"{k.lower_tick}:{k.upper_tick}": (p.liquidity, p.pending_amount0, p.pending_amount1) for k, p in self.market._positions.items()}}

    def negatives(self):
        return []


def bq(ctx, a0, a1):
    """(token0 amount, token1 amount) -> (base, quote)"""
    return (a1, a0) if ctx.orient == "q0" else (a0, a1)


def pos_of(ctx, r):
    from demeter.uniswap import PositionInfo

    lo, hi = ctx.rng[r]
    return PositionInfo(lo, hi)


def alphabet():
    """label -> (call(ctx) -> comparable tuple of numbers, tolerance class, deviation)"""
    ops = {}

    def m(c):
        return c.adapters[0].market

    def bal(c, tok):
        return c.broker.get_token_balance(tok)

    # range bounds that lie exactly HALF WAY between two usable ticks (the market snaps them): whichever way a tie goes, it must go the same way in the mirror
    for name, (dl, dh) in (("half-way", (5, -5)), ("half-way-odd", (15, -15)), ("off-grid", (3, -3))):
        def add_snapped(c, dl=dl, dh=dh):
            mk = m(c)
            lo, hi = c.rng["in"]
            lo, hi = (lo + dl, hi + dh) if c.orient == "q0" else (lo - dh, hi - dl)
            ret = mk.add_liquidity_by_tick(lo, hi, bal(c, mk.base_token) / 3, bal(c, mk.quote_token) / 3)
            p = ret[0]
            width = p.upper_tick - p.lower_tick
            centre = (p.upper_tick + p.lower_tick) if c.orient == "q0" else -(p.upper_tick + p.lower_tick)
            return (ret[1], ret[2], ret[3], width, centre)
        ops[f"add_snapped[{name}]"] = (add_snapped, EXACT, name != "half-way")
    for r in RANGES0:
        for cb, cq in (("third", "third"), ("all", "all"), ("third", "0"), ("0", "third"), ("over", "third")):
            def add(c, r=r, cb=cb, cq=cq):
                mk = m(c)
                f = {"third": Decimal(1) / 3, "all": Decimal(1), "0": Decimal(0), "over": Decimal("1.5")}
                lo, hi = c.rng[r]
                ret = mk.add_liquidity_by_tick(lo, hi, bal(c, mk.base_token) * f[cb], bal(c, mk.quote_token) * f[cq])
                return (ret[1], ret[2], ret[3])
            ops[f"add[{r},{cb},{cq}]"] = (add, EXACT, (cb, cq) != ("third", "third"))

        def add_price(c, r=r):
            mk = m(c)
            lo, hi = c.rng[r]
            p1, p2 = mk.tick_to_price(lo), mk.tick_to_price(hi)
            ret = mk.add_liquidity(min(p1, p2), max(p1, p2), bal(c, mk.base_token) / 4, bal(c, mk.quote_token) / 4)
            return (ret[1], ret[2], ret[3])
        ops[f"add_by_price[{r}]"] = (add_price, EXACT, False)
        if r == "in":
            for nm, w in (("narrow", Decimal("0.0002")), ("one-spacing", Decimal("0.0007"))):
                # a price range narrower than (about as wide as) the pool's tick spacing around the current price: whatever the market makes of it - a refusal,
                # a range of one spacing - it makes the same of it in the mirror (the position it opens is mirrored, width and centre compared)
                def add_narrow(c, w=w):
                    mk = m(c)
                    p = mk.market_status.data.price
                    ret = mk.add_liquidity(p * (1 - w), p * (1 + w), bal(c, mk.base_token) / 5, bal(c, mk.quote_token) / 5)
                    pos = ret[0]
                    centre = (pos.upper_tick + pos.lower_tick) if c.orient == "q0" else -(pos.upper_tick + pos.lower_tick)
                    return (ret[1], ret[2], ret[3], pos.upper_tick - pos.lower_tick, centre)
                ops[f"add_by_price[{nm}]"] = (add_narrow, EXACT, True)
        for frac, collect in (("half", False), ("all", True), ("all", False)):
            def rem(c, r=r, frac=frac, collect=collect):
                mk = m(c)
                p = pos_of(c, r)
                liq = None if frac == "all" else mk.positions[p].liquidity // 2
                ret = mk.remove_liquidity(p, liq, collect=collect)
                return tuple(ret)
            ops[f"remove[{r},{frac},{'collect' if collect else 'keep'}]"] = (rem, EXACT, False)

        def coll(c, r=r):
            return tuple(m(c).collect_fee(pos_of(c, r)))
        ops[f"collect[{r}]"] = (coll, EXACT, False)
        for lim in ("all-base,half-quote", "half-base,all-quote"):
            def coll_lim(c, r=r, lim=lim):
                mk = m(c)
                p = mk.positions[pos_of(c, r)]
                pb, pq = bq(c, p.pending_amount0, p.pending_amount1)
                lb, lq = (pb, pq / 2) if lim.startswith("all-base") else (pb / 2, pq)
                max0, max1 = (lq, lb) if c.orient == "q0" else (lb, lq)  # the API takes token0 / token1 limits
                return tuple(mk.collect_fee(pos_of(c, r), max0, max1))
            ops[f"collect[{r},{lim}]"] = (coll_lim, EXACT, True)
        for edge in ("low-price-end", "high-price-end"):
            def add_at(c, r=r, edge=edge):
                # deposit at a price EXACTLY on a range end, given as a tick (exact in both orientations, unlike a 35-digit price): in the token0-quote
                # pool the low-price end of a range is its UPPER tick, in the mirror its LOWER tick
                mk = m(c)
                lo, hi = c.rng[r]
                at = (hi if edge == "low-price-end" else lo) if c.orient == "q0" else (lo if edge == "low-price-end" else hi)
                ret = mk.add_liquidity_by_tick(lo, hi, bal(c, mk.base_token) / 5, bal(c, mk.quote_token) / 5, tick=at)
                return (ret[1], ret[2], ret[3])
            ops[f"add_at_edge[{r},{edge}]"] = (add_at, EXACT, True)

        def status(c, r=r):
            mk = m(c)
            s = mk.get_position_status(pos_of(c, r))
            lb, lq = bq(c, s.liquidity_amount0, s.liquidity_amount1)
            pb, pq = bq(c, s.pending_amount0, s.pending_amount1)
            ab, aq = bq(c, s.amount0, s.amount1)
            return (s.liquidity, lb, lq, s.liquidity_value, pb, pq, s.pending_value, ab, aq, s.value)
        ops[f"position_status[{r}]"] = (status, EXACT, False)
        for val in ("500", "all", "over"):
            def byval(c, r=r, val=val):
                mk = m(c)
                lo, hi = c.rng[r]
                price = mk.market_status.data.price
                total = bal(c, mk.quote_token) + bal(c, mk.base_token) * price
                v = {"500": Decimal(500), "all": None, "over": total * Decimal("1.2")}[val]
                ret = mk.add_liquidity_by_value(lo, hi, v)
                return (ret[1], ret[2], ret[3])
            ops[f"add_by_value[{r},{val}]"] = (byval, ESTIM, val != "500")

        def est_amount(c, r=r):
            mk = m(c)
            lo, hi = c.rng[r]
            a0, a1 = mk.estimate_amount(Decimal(1000), lo, hi)
            return bq(c, a0, a1)
        ops[f"estimate_amount[{r}]"] = (est_amount, ESTIM, False)

        def est_liq(c, r=r):
            mk = m(c)
            liq, a0, a1 = mk.estimate_liquidity(Decimal(1000), pos_of(c, r))
            return (liq,) + tuple(bq(c, a0, a1))
        ops[f"estimate_liquidity[{r}]"] = (est_liq, ESTIM, False)
    for cls, f in (("third", Decimal(1) / 3), ("all", Decimal(1)), ("over", Decimal("1.5"))):
        ops[f"sell[{cls}]"] = ((lambda c, f=f: tuple(m(c).sell(bal(c, m(c).base_token) * f))), EXACT, cls != "third")
        ops[f"buy[{cls}]"] = ((lambda c, f=f: tuple(m(c).buy(bal(c, m(c).quote_token) * f * (1 - m(c).pool_info.fee_rate) / m(c).market_status.data.price))), EXACT,
                              cls != "third")
    ops["swap[base->quote]"] = ((lambda c: tuple(m(c).swap(bal(c, m(c).base_token) / 5, m(c).base_token, m(c).quote_token))), EXACT, False)
    ops["swap[quote->base]"] = ((lambda c: tuple(m(c).swap(bal(c, m(c).quote_token) / 5, m(c).quote_token, m(c).base_token))), EXACT, False)
    ops["even_rebalance"] = ((lambda c: (m(c).even_rebalance(), 0)[1:]), EXACT, False)
    ops["remove_all"] = ((lambda c: (m(c).remove_all_liquidity(), 0)[1:]), EXACT, False)

    def balance(c):
        b = m(c).get_market_balance()
        return (b.net_value, b.base_uncollected, b.quote_uncollected, b.base_in_position, b.quote_in_position, b.position_count)
    ops["market_balance"] = (balance, EXACT, False)

    def p2t(c):
        mk = m(c)
        ts = [mk.price_to_tick(Decimal(p)) for p in ("1500.5", "2058.1234", "3100")]
        return tuple(t if c.orient == "q0" else -t for t in ts)
    ops["price_to_tick"] = (p2t, EXACT, False)

    def t2p(c):
        mk = m(c)
        return tuple(mk.tick_to_price(t if c.orient == "q0" else -t) for t in (c0 for c0 in (199500, 200013, 201777)))
    ops["tick_to_price"] = (t2p, EXACT, False)
    ops["advance"] = ((lambda c: (c.advance(), 0)[1:]), EXACT, False)
    return ops


def same(a, b, tol):
    if a is None or b is None:
        return a is b
    fa, fb = F(Decimal(a)) if not isinstance(a, int) else Fraction(a), F(Decimal(b)) if not isinstance(b, int) else Fraction(b)
    return abs(fa - fb) <= tol * max(abs(fa), abs(fb)) + Fraction(1, 10**15)


def state_of(ctx):
    """wallet by token name, positions by range name, market value — in base / quote terms."""
    mk = ctx.adapters[0].market
    d = {f"wallet.{k}": v for k, v in ctx.wallet().items()}
    names = {v: k for k, v in ctx.rng.items()}
    for k, p in mk._positions.items():
        nm = names.get((k.lower_tick, k.upper_tick), f"{k.lower_tick}:{k.upper_tick}" if ctx.orient == "q0" else f"{-k.upper_tick}:{-k.lower_tick}")
        pb, pq = bq(ctx, p.pending_amount0, p.pending_amount1)
        d[f"pos.{nm}.liquidity"] = p.liquidity
        d[f"pos.{nm}.pending_base"] = pb
        d[f"pos.{nm}.pending_quote"] = pq
    d["market.net_value"] = mk.get_market_balance().net_value
    return d


class Explorer:
    def __init__(self, part, state, decimals, depth, max_dev, first=None):
        self.part = part
        self.case0 = {"state": state, "decimals": list(decimals)}
        self.ops = alphabet()
        self.depth = depth
        self.max_dev = max_dev
        self.a, self.b = make_pair(state, decimals)
        self.seen = set()
        self.first = first  # (k, n): at the root only every n-th label starting at k is expanded (partition of the search over workers)

    def enabled(self):
        mk = self.a.adapters[0].market
        have = {r for r in RANGES0 if pos_of(self.a, r) in mk._positions}
        out = []
        for lab in self.ops:
            r = lab[lab.index("[") + 1:].split(",")[0].rstrip("]") if "[" in lab else None
            needs_pos = lab.startswith(("remove[", "collect[", "position_status[", "estimate_liquidity["))
            if lab.startswith("add_at_edge[") and r not in ("in", "wide"):
                continue
            if needs_pos and r not in have:
                continue
            out.append(lab)
        return out

    def step(self, lab, hist):
        fn, tol, _ = self.ops[lab]
        oa = kit.apply(self.a, kit.Op(lab, fn))
        ob = kit.apply(self.b, kit.Op(lab, fn))
        part = self.part
        part.count("transitions")
        case = dict(self.case0, history=list(hist))
        kind = lab.split("[")[0]
        if oa.ok != ob.ok:
            part.violation(f"C09|{kind}|accepted-in-one-orientation", "an operation is accepted in one token order and rejected in the mirror", case,
                           {"token0_quote": "ok" if oa.ok else oa.error, "token1_quote": "ok" if ob.ok else ob.error})
            return False
        part.count("accepted" if oa.ok else "rejected")
        if any(h.startswith("add_by_value") for h in hist):
            tol = ESTIM  # everything downstream of an estimate-based helper inherits its tolerance
        if oa.ok:
            ra, rb = oa.ret, ob.ret
            if len(ra) != len(rb) or any(not same(x, y, tol) for x, y in zip(ra, rb)):
                part.violation(f"C09|{kind}|result", "the same operation in base / quote terms returns different amounts in the mirrored pool", case,
                               {"token0_quote": [str(x) for x in ra], "token1_quote": [str(x) for x in rb]})
                return False
        sa, sb = state_of(self.a), state_of(self.b)
        part.count("state_comparisons")
        stol = ESTIM if kind == "add_by_value" or any(h.startswith("add_by_value") for h in hist) else EXACT
        if set(sa) != set(sb):
            part.violation(f"C09|{kind}|state-shape", "positions / wallet entries differ between the two token orders", case,
                           {"only_token0_quote": sorted(set(sa) - set(sb)), "only_token1_quote": sorted(set(sb) - set(sa))})
            return False
        for k in sa:
            if not same(sa[k], sb[k], stol):
                part.violation(f"C09|{kind}|state|{k.split('.')[0]}", "wallet / position / value differs between the two token orders after the same operations", case,
                               {"field": k, "token0_quote": str(sa[k]), "token1_quote": str(sb[k])})
                return False
        return True

    def run(self):
        hist = []

        def rec(d, dev):
            key = self.a.canon()
            budget = (self.depth - d, self.max_dev - dev)
            if (key, budget) in self.seen:
                return
            self.seen.add((key, budget))
            if d >= self.depth:
                self.part.count("complete")
                return
            sa, sb = self.a.snapshot(), self.b.snapshot()
            labs = self.enabled()
            if d == 0 and self.first is not None:
                labs = labs[self.first[0]::self.first[1]]
            for lab in labs:
                isdev = self.ops[lab][2]
                if isdev and dev >= self.max_dev:
                    continue
                if lab == "advance" and self.a.bar + 1 >= len(self.a.index):
                    continue
                hist.append(lab)
                if self.step(lab, hist):
                    rec(d + 1, dev + (1 if isdev else 0))
                hist.pop()
                self.a.restore(sa)
                self.b.restore(sb)
        rec(0, 0)
        self.part.count("states", len(self.seen))


def work(args):
    seed, state, decimals, depth, max_dev, first = args
    part = Part(seed)
    Explorer(part, state, tuple(decimals), depth, max_dev, first).run()
    part.sample({"state": state, "decimals": list(decimals)}, every=1)
    return part.result()


def main(run: Run):
    depth, max_dev = run.pick((3, 1), (3, 2))
    decs = [(6, 18), (8, 18)] if run.thorough else [(6, 18)]
    states = list(STATES) if run.thorough else ["below", "just-below", "inside", "inside-off-grid", "just-above", "above"]
    # the same pools fed through the repository's data preparation: minute rows resampled to longer bars, and a minute without a row filled by the loader's rules
    states += ["inside@2min", "just-below@5min", "inside@gap", "inside@addr"] + (["just-above@2min", "below@gap", "inside-off-grid@5min"] if run.thorough else [])
    jobs = run.rotate([(run.seed, s, d, depth, max_dev, (k, 4)) for s in states for d in decs for k in range(4)])
    for r in pmap(work, jobs):
        run.merge(r)
    c = run.counters
    cov = {
        "states": c.get("states", 0), "transitions": c.get("transitions", 0), "traces_validated_against_impl": c.get("complete", 0),
        "evaluations": c.get("state_comparisons", 0), "distinct_nontrivial": c.get("accepted", 0),
        "rule": f"pool states {states} (price below / just outside / just inside / inside / above the reference range) x decimals {decs} x all sequences of <= {depth} "
                f"operations of a {len(alphabet())}-label alphabet (add by tick / price / value on four ranges, remove, collect, buy, sell, swap, even_rebalance, "
                "remove_all, estimate_amount, estimate_liquidity, position status, market balance, price<->tick, bar advance with fees), both orientations in lock-step",
        "accepted": c.get("accepted", 0), "rejected": c.get("rejected", 0),
        "exhaustive": True, "completed_bound": {"depth": depth, "deviations": max_dev},
    }
    return run.finish(cov, ["the mirror negates ticks, swaps and negates range bounds and swaps the per-token volumes; prices exactly ON a range bound are excluded because which "
                            "side of the bound a 35-digit price falls on is rounding noise in either orientation (one tick inside / outside is explored instead)",
                            "tolerances: 1e-12 relative for exact operations, 1e-3 for estimate-based helpers and for states downstream of add_liquidity_by_value"])


def replay(run: Run, path):
    data = json.load(open(path))
    case = data["case"]
    part = Part()
    ex = Explorer(part, case["state"], tuple(case["decimals"]), 0, 0)
    hist = []
    for lab in case["history"]:
        hist.append(lab)
        ok = ex.step(lab, hist)
        print("step:", lab, "agree" if ok else "DIFFER")
    for sig, v in part.violations.items():
        print("reproduced:", sig, v[0], v[2])
    print("REPLAY", "violations" if part.violations else "clean")
    return 1 if part.violations else 0
