"""C11 — Aave borrow / withdraw / collateral-flag limits and risk figures follow the v3 definitions.

Exhaustive product: portfolio (built by REAL supply/borrow calls in bar 0) x price vector of bar 1 x probe operation
whose amount is placed RELATIVE TO THE ANALYTIC FRONTIER computed in exact Fractions from the raw positions
(frontier x (1 -/+ 1e-3) are judged for acceptance, x (1 -/+ 1e-6) only for the post-invariant).  After every probe:
accepted => health factor >= 1 and (for borrows) debt <= collateral x weighted LTV; the reported risk figures equal
their definitions; the max helpers are accepted, never exceed the supply; a rejected probe leaves the state alone.
A second probe is chained after every accepted first probe (depth 2) so the limits are also checked from non-seeded
states."""
from __future__ import annotations

import itertools
import json
from decimal import Decimal
from fractions import Fraction

from mc.engine.core import Part, Run, chunks, pmap
from mc.worlds import kit
from mc.worlds.kit import F

LEVEL = "model_checking"
REL = Fraction(1, 10**24)
TINY = Fraction(1, 10**20)
DEGENERATE = Fraction(1, 10**9)  # a frontier worth less than 1e-9 USD is rounding residue, not a limit to probe

# portfolio = (supplies [(token, amount, collateral)], debts [(token, share of the LTV room used)])
SUPPLY_SETS = {
    "weth": [("WETH", "2", True)],
    "wbtc": [("WBTC", "0.1", True)],
    "weth+usdc": [("WETH", "2", True), ("USDC", "3000", True)],
    "weth+aave": [("WETH", "1", True), ("AAVE", "30", True)],
    "weth+usdtN": [("WETH", "2", True), ("USDT", "1000", False)],
    "usdc+wethN": [("USDC", "5000", True), ("WETH", "1", False)],
    "three": [("WETH", "1.5", True), ("USDC", "2000", True), ("WBTC", "0.05", True)],
    "onlyN": [("USDT", "1000", False), ("WETH", "1", False)],
    "weth+link0": [("WETH", "1", True), ("LINK", "100", True)],  # LINK: collateral with a max-LTV of 0
}
DEBT_SETS = {
    "none": [],
    "usdc-low": [("USDC", "0.3")],
    "usdc-high": [("USDC", "0.97")],
    "dai-mid": [("DAI", "0.6")],
    "usdc+dai": [("USDC", "0.45"), ("DAI", "0.85")],  # second share is of the REMAINING room
    "weth-debt": [("WETH", "0.5")],
    "usdc-dust": [("USDC", "0.00000002")],  # a debt worth a few hundred-thousandths of a dollar is a debt
}
PRICE_VECTORS = {
    "same": {},
    "weth-10%": {"WETH": "0.9", "WBTC": "0.93"},
    "weth+20%": {"WETH": "1.2", "AAVE": "0.8"},
    "depeg": {"DAI": "1.03", "USDC": "0.985"},
    "crash": {"WETH": "0.55", "WBTC": "0.6", "AAVE": "0.5"},
}
QUICK_S = ["weth", "weth+usdc", "weth+usdtN", "three", "wbtc", "onlyN", "usdc+wethN", "weth+link0"]
QUICK_D = ["none", "usdc-low", "usdc-high", "usdc+dai", "weth-debt", "usdc-dust"]
QUICK_P = ["same", "weth-10%", "depeg"]
FACTORS = [("in", Fraction(999, 1000)), ("in6", 1 - Fraction(1, 10**6)), ("out6", 1 + Fraction(1, 10**6)),
           ("out", Fraction(1001, 1000)), ("far", Fraction(3, 2))]


def dec(fr: Fraction) -> Decimal:
    return Decimal(fr.numerator) / Decimal(fr.denominator)


def build_ctx(sname, dname, pname):
    from demeter._typing import USD
    from mc.worlds import aave
    from mc.worlds.kit import Ctx

    frames = aave.make_data(3)
    mult = {k: [1, v, v] for k, v in PRICE_VECTORS[pname].items()}
    prices = aave.price_frame(3, mult)
    m = aave.make_market(frames)
    ad = aave.AaveAdapter(m, frames)
    ctx = Ctx("aave", prices, USD, [ad], [(aave.WETH, 10), (aave.USDC, 20000), (aave.DAI, 5000), (aave.USDT, 8000), (aave.AAVE, 50),
                                          (aave.WBTC, 1), (aave.LINK, 500)], prices.index)
    ctx.begin_bar(0)
    tok = {t.name: t for t in aave.TOKENS}
    for sym, amt, coll in SUPPLY_SETS[sname]:
        m.supply(tok[sym], Decimal(amt), coll)
    for sym, share in DEBT_SETS[dname]:
        r = ad.ref_risk()
        room = r["ltv_sum"] - r["debt"]
        if room <= 0:
            break
        m.borrow(tok[sym], dec(room * Fraction(share) / F(ctx.price_row()[sym])))
    # bar change WITHOUT the end-of-bar update of bar 0 being able to liquidate (bar 0 is healthy by construction)
    ctx.advance()
    ctx.tok = tok
    return ctx


def frontiers(ctx):
    """Analytic limits from raw positions, exact."""
    ad = ctx.adapters[0]
    sup, bor = ad.ref_positions()
    r = ad.ref_risk()
    row = ctx.price_row()
    from mc.worlds import aave

    out = {"risk": r, "sup": sup, "bor": bor}
    out["borrow_room_value"] = r["ltv_sum"] - r["debt"]
    wd = {}
    for s, (amt, val, coll) in sup.items():
        if coll and r["debt"] > 0:
            lt = aave.risk(s)["lt"]
            free_value = (r["lt_sum"] - r["debt"]) / lt if lt > 0 else None
            lim = amt if free_value is None else min(amt, free_value / F(row[s]))
        else:
            lim = amt
        wd[s] = lim
    out["withdraw"] = wd
    return out


def probes(ctx):
    """(label, kind, call, expectation) ; expectation in {'accept','reject',None}"""
    from mc.worlds import aave

    ad = ctx.adapters[0]
    m = ad.market
    fr = frontiers(ctx)
    row = ctx.price_row()
    tok = ctx.tok
    r = fr["risk"]
    out = []
    has_coll = r["collateral"] > 0
    hf_ok = r["hf"] is None or r["hf"] > 1
    for sym in ("USDC", "DAI", "WETH"):
        room = fr["borrow_room_value"]
        lim = room / F(row[sym])
        for tag, f in FACTORS:
            if room > DEGENERATE:
                a = lim * f
                exp = {"in": "accept", "out": "reject", "far": "reject"}.get(tag)
                if exp == "accept" and not (has_coll and hf_ok and r["ltv_sum"] > 0):
                    exp = "reject"
            else:
                a = Fraction(1, 100) * (1 + f)
                exp = "reject"
            out.append((f"borrow[{sym},{tag}]", "borrow", (lambda a=a, sym=sym: m.borrow(tok[sym], dec(a))), exp, {"token": sym, "amount": a}))
        if sym != "WETH":
            exp = "accept" if room > DEGENERATE and has_coll and hf_ok else None
            out.append((f"borrow[{sym},None]", "borrow_max", (lambda sym=sym: m.borrow(tok[sym])), exp, {"token": sym}))
    out.append(("borrow[AAVE,small]", "borrow", lambda: m.borrow(tok["AAVE"], Decimal("0.001")), "reject", {"token": "AAVE", "flag": True}))
    for sym, lim in fr["withdraw"].items():
        for tag, f in FACTORS:
            if lim * F(row[sym]) > DEGENERATE:
                a = lim * f
                exp = {"in": "accept", "out": "reject", "far": "reject"}.get(tag)
            else:
                a = fr["sup"][sym][0] * Fraction(1, 100) * f
                exp = "reject"
            out.append((f"withdraw[{sym},{tag}]", "withdraw", (lambda a=a, sym=sym: m.withdraw(tok[sym], dec(a))), exp, {"token": sym, "amount": a}))
        # the whole supply at once (amount None): accepted only if the health factor allows all of it to go
        whole = fr["sup"][sym][0]
        exp_all = "accept" if lim >= whole * Fraction(1001, 1000) or lim == whole else ("reject" if lim <= whole * Fraction(999, 1000) else None)
        out.append((f"withdraw[{sym},None]", "withdraw", (lambda sym=sym: m.withdraw(tok[sym])), exp_all, {"token": sym, "amount": whole}))
        out.append((f"withdraw[{sym},max]", "withdraw_max", (lambda sym=sym: m.withdraw(tok[sym], m.get_max_withdraw_amount(tok[sym]))),
                    None, {"token": sym, "limit": lim}))
        amt, val, coll = fr["sup"][sym]
        if coll:
            lt = aave.risk(sym)["lt"]
            if r["debt"] > 0:
                hf_after = (r["lt_sum"] - val * lt) / r["debt"]
                exp = "accept" if hf_after >= Fraction(1001, 1000) else ("reject" if hf_after <= Fraction(999, 1000) else None)
            else:
                exp = "accept"
            out.append((f"change_collateral[{sym},N]", "uncollateral", (lambda sym=sym: m.change_collateral(tok[sym], False)), exp, {"token": sym}))
        elif aave.RISK[sym][0]:
            out.append((f"change_collateral[{sym},C]", "collateral", (lambda sym=sym: m.change_collateral(tok[sym], True)), "accept", {"token": sym}))
    for sym in fr["bor"]:
        out.append((f"repay[{sym},half]", "repay", (lambda sym=sym: m.repay(tok[sym], m.get_borrow(tok[sym]).amount / 2)), None, {"token": sym}))
        if "WETH" in fr["sup"] and fr["sup"]["WETH"][2]:
            out.append((f"repay[{sym},third,WETH]", "repay", (lambda sym=sym: m.repay(tok[sym], m.get_borrow(tok[sym]).amount / 3, True, tok["WETH"])),
                        None, {"token": sym}))
    out.append(("supply[DAI,C]", "supply", lambda: m.supply(tok["DAI"], Decimal(100), True), None, {"token": "DAI"}))
    return out, fr


def check_figures(part, ctx, case):
    ad = ctx.adapters[0]
    m = ad.market
    r = ad.ref_risk()
    part.count("figure_comparisons")

    def close(got, want):
        if want is None:
            return got == Decimal("inf")
        if not Decimal(got).is_finite():
            return False  # an infinite / undefined figure where the definition gives a number
        return abs(F(got) - want) <= REL * max(abs(want), 1)

    for name, want in (("health_factor", r["hf"]), ("max_ltv", r["max_ltv"]), ("liquidation_threshold", r["lt"]), ("ltv", r["ltv"])):
        try:
            got = getattr(m, name)
        except kit.REJECTIONS as e:
            part.violation(f"C11|figure|{name}|exception", f"reading {name} raised", case, {"error": repr(e)[:200]})
            continue
        if not close(got, want):
            part.violation(f"C11|figure|{name}", f"reported {name} differs from its Aave v3 definition", case,
                           {"reported": str(got), "definition": None if want is None else float(want)})


def run_probe(part, case, ctx, label, depth_tag=""):
    """Execute one probe (looked up by label in the CURRENT state) and judge it."""
    ad = ctx.adapters[0]
    m = ad.market
    plist, fr = probes(ctx)
    by = {p[0]: p for p in plist}
    if label not in by:
        return None
    _, kind, call, exp, info = by[label]
    r0 = fr["risk"]
    pre_raw = ctx.raw()
    helper_val = None
    if kind in ("withdraw_max", "borrow_max") and not r0["collateral"] > 0:
        return None  # the helpers are specified for accounts with collateral only
    if kind == "withdraw_max":
        try:
            helper_val = m.get_max_withdraw_amount(ctx.tok[info["token"]])
        except Exception as e:  # noqa: BLE001
            part.violation(f"C11|helper|max_withdraw|exception{depth_tag}", "get_max_withdraw_amount raised", case, {"error": repr(e)})
            return None
    if kind == "borrow_max":
        try:
            helper_val = m.get_max_borrow_amount(ctx.tok[info["token"]])
        except Exception as e:  # noqa: BLE001
            part.violation(f"C11|helper|max_borrow|exception{depth_tag}", "get_max_borrow_amount raised", case, {"error": repr(e)})
            return None
    if helper_val is not None and not (isinstance(helper_val, (int, Decimal)) and Decimal(helper_val).is_finite()):
        part.violation(f"C11|helper|{kind}|not-a-number{depth_tag}", "a max-borrow / max-withdraw helper returned something that is not a finite amount", dict(case, probe=label),
                       {"helper": repr(helper_val)[:80]})
        return None
    snap = ctx.snapshot()
    out = kit.apply(ctx, kit.Op(label, lambda c: call()))
    part.count("probes")
    part.count("accepted" if out.ok else "rejected")
    part.count(f"kind.{kind}.{'acc' if out.ok else 'rej'}")
    cdict = dict(case, probe=label)
    if exp == "accept" and not out.ok:
        part.violation(f"C11|{kind}|inside-limit-rejected{depth_tag}", "a request inside the limit with 0.1% margin was rejected", cdict,
                       {"error": out.error, "info": info, "hf_before": None if r0["hf"] is None else float(r0["hf"])})
    if exp == "reject" and out.ok:
        part.violation(f"C11|{kind}|beyond-limit-accepted{depth_tag}", "a request beyond the limit (0.1% or more) was accepted", cdict,
                       {"info": info, "hf_before": None if r0["hf"] is None else float(r0["hf"])})
    r1 = ad.ref_risk()
    if out.ok:
        # post-invariants of every accepted user operation
        started_ok = r0["hf"] is None or r0["hf"] >= 1
        # withdrawing a NON-collateral supply does not enter the health factor and is not bound by it
        guarded = kind in ("borrow", "borrow_max", "uncollateral") or (kind in ("withdraw", "withdraw_max") and fr["sup"][info["token"]][2])
        if r1["debt"] > 0 and r1["hf"] is not None and r1["hf"] < 1 - TINY and (started_ok or guarded):
            part.violation(f"C11|{kind}|hf-below-1-after-accept{depth_tag}", "an accepted operation left an account with debt at health factor < 1", cdict,
                           {"hf_after": float(r1["hf"]), "hf_before": None if r0["hf"] is None else float(r0["hf"])})
        if kind in ("borrow", "borrow_max") and r1["debt"] > r1["ltv_sum"] * (1 + TINY):
            part.violation(f"C11|{kind}|debt-exceeds-ltv{depth_tag}", "an accepted borrow left total debt above collateral x weighted max-LTV", cdict,
                           {"debt": float(r1["debt"]), "ltv_sum": float(r1["ltv_sum"])})
    else:
        if ctx.raw() != pre_raw:
            part.violation(f"C11|{kind}|rejected-but-changed{depth_tag}", "a rejected probe changed the state", cdict, {"error": out.error})
    if kind == "withdraw_max":
        sym = info["token"]
        supplied = fr["sup"][sym][0]
        part.count("helper.max_withdraw")
        if F(helper_val) > supplied * (1 + TINY):
            part.violation(f"C11|helper|max_withdraw-exceeds-supply{depth_tag}", "get_max_withdraw_amount exceeds the supplied amount", cdict,
                           {"helper": str(helper_val), "supplied": float(supplied)})
        if helper_val > 0 and not out.ok and r0["collateral"] > 0:
            part.violation(f"C11|helper|max_withdraw-rejected{depth_tag}", "withdrawing get_max_withdraw_amount was rejected", cdict,
                           {"helper": str(helper_val), "error": out.error, "limit": float(info["limit"])})
        if F(helper_val) > info["limit"] * Fraction(1001, 1000) + TINY and info["limit"] >= 0:
            part.violation(f"C11|helper|max_withdraw-beyond-limit{depth_tag}", "get_max_withdraw_amount lies beyond the health-factor limit", cdict,
                           {"helper": str(helper_val), "limit": float(info["limit"])})
    if kind == "borrow_max":
        part.count("helper.max_borrow")
        room = fr["borrow_room_value"] / F(ctx.price_row()[info["token"]])
        if F(helper_val) > room * (1 + TINY) and room > 0:
            part.violation(f"C11|helper|max_borrow-beyond-limit{depth_tag}", "get_max_borrow_amount lies beyond the LTV limit", cdict,
                           {"helper": str(helper_val), "room": float(room)})
    check_figures(part, ctx, cdict)
    return out, snap


def run_case(args):
    seed, cases, depth2 = args
    part = Part(seed)
    for (sname, dname, pname) in cases:
        case = {"supplies": sname, "debts": dname, "prices": pname}
        try:
            ctx = build_ctx(sname, dname, pname)
        except kit.REJECTIONS as e:
            part.violation("C11|build|exception", "building a portfolio with in-limit operations raised", case, {"error": repr(e)})
            continue
        part.count("portfolios")
        pristine = ctx.snapshot()  # the new bar has just begun: nothing has read a derived figure yet (every memoised view is empty)
        check_figures(part, ctx, case)
        labels = [p[0] for p in probes(ctx)[0]]
        part.sample({"case": case, "probes": len(labels)}, every=13)
        after_read = ctx.snapshot()
        # every probe is made both as the FIRST thing that touches the account in the bar and after the figures have been read; second probes are
        # chained after the first kind (they follow the figure comparison that closes every probe, i.e. a read)
        for base, tag in ((pristine, {"first_touch": True}), (after_read, {})):
            ctx.restore(base)
            for lab in labels:
                res = run_probe(part, dict(case, **tag), ctx, lab)
                part.count("transitions")
                if res and res[0].ok and depth2 and tag:
                    mid = ctx.snapshot()
                    labels2 = [p[0] for p in probes(ctx)[0]]
                    for lab2 in labels2:
                        run_probe(part, dict(case, first=lab, **tag), ctx, lab2, "|d2")
                        part.count("transitions")
                        ctx.restore(mid)
                ctx.restore(base)
    return part.result()


def all_cases(run):
    if run.thorough:
        S, Dn, P = list(SUPPLY_SETS), list(DEBT_SETS), list(PRICE_VECTORS)
    else:
        S, Dn, P = QUICK_S, QUICK_D, QUICK_P
    cases = []
    for s, d, p in itertools.product(S, Dn, P):
        if d == "weth-debt" and s in ("weth", "weth+usdtN"):
            continue  # borrowing the only collateral token: legal but uninformative
        cases.append((s, d, p))
    return cases


def main(run: Run):
    cases = run.rotate(all_cases(run))
    jobs = [(run.seed, ch, True) for ch in chunks(cases, 64)]
    for r in pmap(run_case, jobs):
        run.merge(r)
    c = run.counters
    cov = {
        "states": c.get("portfolios", 0) + c.get("accepted", 0), "transitions": c.get("transitions", 0),
        "traces_validated_against_impl": c.get("probes", 0), "evaluations": c.get("probes", 0) + c.get("figure_comparisons", 0),
        "distinct_nontrivial": c.get("portfolios", 0),
        "rule": "portfolio (supply set x debt set, built by real calls) x price vector x probe (borrow / withdraw at frontier x {0.999, 1-1e-6, "
                "1+1e-6, 1.001, 1.5}, helper maxima, collateral flag changes, repay, supply), then every probe again after every accepted probe "
                "(depth 2). Acceptance is judged only for the 1e-3 margin classes; post-invariants for all.",
        "accepted": c.get("accepted", 0), "rejected": c.get("rejected", 0),
        "exhaustive": True, "completed_bound": {"portfolios": len(cases), "depth": 2},
    }
    return run.finish(cov, ["frontiers are computed in exact Fractions from the raw scaled balances, the harness's index frames, the risk table and the bar's prices",
                            "the 1e-6 margin classes are not judged for acceptance (rounding may decide them), only for the post-invariant",
                            "borrow(None) is expected to be accepted only when the LTV room is positive"])


def replay(run: Run, path):
    data = json.load(open(path))
    case = data["case"]
    part = Part()
    ctx = build_ctx(case["supplies"], case["debts"], case["prices"])
    if not case.get("first_touch"):
        check_figures(part, ctx, case)
    if case.get("first"):
        run_probe(part, case, ctx, case["first"])
        part.violations.clear()
    if case.get("probe"):
        run_probe(part, {k: v for k, v in case.items() if k != "probe"}, ctx, case["probe"], "|d2" if case.get("first") else "")
    for sig, v in part.violations.items():
        print("reproduced:", sig, v[0], v[2])
    print("REPLAY", "violations" if part.violations else "clean")
    return 1 if part.violations else 0
