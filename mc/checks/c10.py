"""C10 — Aave balances accrue exactly with the indices; operations move exactly the stated amounts.

Explicit-state exploration of supply / withdraw / borrow / repay (cash, own collateral, other collateral) interleaved
with bar advances along per-token index paths (different for every token), lock-step against a ledger of scaled
lots in exact Fractions; plus split/merge and commutation differentials from every reached state."""
from __future__ import annotations

from decimal import Decimal
from fractions import Fraction

from mc.engine.core import Part, Run, pmap
from mc.worlds import kit
from mc.worlds.kit import F, Op

LEVEL = "model_checking"
EPS = Fraction(1, 10**18)
N_BARS = 7


def make_world(resampled=False):
    from mc.worlds import aave
    from mc.worlds.catalog import World
    from mc.worlds.kit import Ctx
    from demeter._typing import USD

    k = 3 if resampled else 1  # (the index steps repeat every four minutes: a bar length that is no divisor or multiple of that)
    frames = aave.make_data(N_BARS * k)
    prices = aave.price_frame(N_BARS * k)
    if resampled:
        # three one-minute rows per bar, the market's data resampled by the repository's own _resample (as Actuator.switch_interval does): a bar stamped t carries
        # the indices of time t, so "index now" is the index at the bar's timestamp (the per-minute steps differ, the path is not geometric)
        prices = prices.iloc[::k]
    toks = [aave.WETH, aave.USDC, aave.DAI]

    def build():
        m = aave.make_market(frames)
        if resampled:
            m._resample("3min")
        ad = aave.AaveAdapter(m, frames)
        ctx = Ctx("aave", prices, USD, [ad], [(aave.WETH, 100), (aave.USDC, 300000), (aave.DAI, 300000)], prices.index)
        ctx.begin_bar(0)
        ctx.model = {"sup": {}, "bor": {}, "wallet": {k: F(v) for k, v in ctx.wallet().items()}}
        return ctx

    w = World("aave", build, ((),), {f"aave.{k}": v for k, v in frames.items()})
    w.toks = toks
    w.aave = aave
    return w


STATED = {"WETH": Decimal("7.5"), "USDC": Decimal("4321.123456"), "DAI": Decimal("1000.000000000000000001")}


def alphabet(world):
    aave = world.aave

    def ops(ctx):
        ad = ctx.adapters[0]
        m = ad.market
        out = []

        def li(t):
            return ad.indices(t.name)[0]

        def bi(t):
            return ad.indices(t.name)[1]

        def do(kind, t, amt, fn, extra=None):
            ctx.last = {"kind": kind, "token": t.name, "amount": amt, "extra": extra}
            return fn()

        if ctx.bar + 1 < len(ctx.index):
            out.append(Op("advance", lambda c: c.advance(), False, "advance"))
        for t in world.toks:
            a = STATED[t.name]
            out.append(Op(f"supply[{t.name}]", lambda c, t=t, a=a: do("supply", t, a, lambda: m.supply(t, a, True)), False, "supply"))
            if t != aave.WETH and t in m._borrows:
                # everything the wallet holds of a borrowed token goes into a supply: a later cash repayment can not be paid and is refused
                def all_in(c, t=t):
                    w = c.broker.get_token_balance(t)
                    return do("supply", t, w, lambda: m.supply(t, w, True))
                out.append(Op(f"supply[{t.name},wallet]", all_in, True, "supply"))
            if t == aave.DAI:
                # nearly everything the wallet holds (0.005 % less): the stated amount moves, not the whole balance
                def near_all(c, t=t):
                    w = (c.broker.get_token_balance(t) * Decimal("0.99995")).quantize(Decimal("1e-12"))
                    return do("supply", t, w, lambda: m.supply(t, w, True))
                out.append(Op(f"supply[{t.name},near-wallet]", near_all, True, "supply"))
            if t != aave.USDC:
                # a supply that is not used as collateral accrues and is withdrawn exactly like any other
                out.append(Op(f"supply[{t.name},nocoll]", lambda c, t=t, a=a: do("supply", t, a, lambda: m.supply(t, a, False)), True, "supply"))
            if t in m._supplies:
                out.append(Op(f"withdraw[{t.name},part]", lambda c, t=t, a=a: do("withdraw", t, a / 3, lambda: m.withdraw(t, a / 3)), False, "withdraw"))
                out.append(Op(f"withdraw[{t.name},None]", lambda c, t=t: do("withdraw", t, None, lambda: m.withdraw(t)), True, "withdraw"))
                # a stated amount of 0 (a strategy sizing its order from a balance that happens to be 0) is 0, not "everything": refused or accepted, nothing moves
                out.append(Op(f"withdraw[{t.name},0]", lambda c, t=t: do("withdraw", t, Decimal(0), lambda: m.withdraw(t, Decimal(0))), True, "withdraw"))
                out.append(Op(f"withdraw[{t.name},all]",
                              lambda c, t=t: do("withdraw", t, "all", lambda: m.withdraw(t, m.get_supply(t).amount)), True, "withdraw"))
            if t != aave.WETH:
                b = STATED[t.name] / 5
                out.append(Op(f"borrow[{t.name}]", lambda c, t=t, b=b: do("borrow", t, b, lambda: m.borrow(t, b)), False, "borrow"))
            if t == aave.DAI and m._supplies:
                out.append(Op(f"borrow[{t.name},0]", lambda c, t=t: do("borrow", t, Decimal(0), lambda: m.borrow(t, Decimal(0))), True, "borrow"))
            if t == aave.USDC:
                big = STATED[t.name] * Decimal("0.45")  # more than the DAI supply is worth: repaying it with DAI collateral hits the cap
                out.append(Op(f"borrow[{t.name},big]", lambda c, t=t, big=big: do("borrow", t, big, lambda: m.borrow(t, big)), False, "borrow"))
            if t in m._borrows:
                def hair(c, t=t):
                    # a hair more than is owed: no such repayment exists (the ledger would have to show a negative debt)
                    d = m.get_borrow(t).amount
                    ctx.last = {"kind": "repay-over", "token": t.name, "amount": None, "extra": "cash"}
                    return m.repay(t, d + Decimal("3e-12"))
                out.append(Op(f"repay[{t.name},hair-over]", hair, True, "repay-over"))
                b = STATED[t.name] / 11
                out.append(Op(f"repay[{t.name},part]", lambda c, t=t, b=b: do("repay", t, b, lambda: m.repay(t, b), "cash"), False, "repay"))
                out.append(Op(f"repay[{t.name},None]", lambda c, t=t: do("repay", t, None, lambda: m.repay(t), "cash"), True, "repay"))
                out.append(Op(f"repay[{t.name},0]", lambda c, t=t: do("repay", t, Decimal(0), lambda: m.repay(t, Decimal(0)), "cash"), True, "repay"))
                out.append(Op(f"repay[{t.name},0.0]", lambda c, t=t: do("repay", t, Decimal(0), lambda: m.repay(t, 0.0), "cash"), True, "repay"))
                # a cash repayment that also names a collateral token (ignored in cash mode, as documented): still paid from the wallet
                out.append(Op(f"repay[{t.name},part,cash+token-named]",
                              lambda c, t=t, b=b: do("repay", t, b, lambda: m.repay(t, b, False, aave.WETH), "cash"), True, "repay"))
                out.append(Op(f"repay[{t.name},part,self]", lambda c, t=t, b=b: do("repay", t, b, lambda: m.repay(t, b, True), t.name), True, "repay"))
                if aave.DAI in m._supplies and t != aave.DAI:
                    out.append(Op(f"repay[{t.name},None,DAI]", lambda c, t=t: do("repay", t, None, lambda: m.repay(t, None, True, aave.DAI), "DAI"), True, "repay"))
                out.append(Op(f"repay[{t.name},part,WETH]",
                              lambda c, t=t, b=b: do("repay", t, b, lambda: m.repay(t, b, True, aave.WETH), "WETH"), True, "repay"))
        return out
    return ops


class Oracle:
    def __init__(self, part, world):
        self.part = part
        self.world = world

    # ---- lock-step ledger -----------------------------------------------------------------------------------
    def step_model(self, ctx, info, pre_bal):
        ad = ctx.adapters[0]
        md = ctx.model
        row = ctx.price_row()
        t = info["token"]
        kind = info["kind"]
        li, bi = ad.indices(t)
        amt = info["amount"]
        def debit(a):
            # the wallet's rounding-dust rule: a payment within 0.001 % of the balance takes the whole balance (the wallet is swept), the position still moves by
            # the stated amount
            bal = md["wallet"][t]
            md["wallet"][t] = Fraction(0) if bal != 0 and abs((bal - a) / bal) < Fraction(1, 10**5) else bal - a
        if kind == "supply":
            md["sup"][t] = md["sup"].get(t, Fraction(0)) + F(amt) / li
            debit(F(amt))
        elif kind == "withdraw":
            a = md["sup"][t] * li if amt in (None, "all") else F(amt)
            md["sup"][t] -= a / li
            md["wallet"][t] += a
            if md["sup"][t] * li < EPS:
                del md["sup"][t]
        elif kind == "borrow":
            md["bor"][t] = md["bor"].get(t, Fraction(0)) + F(amt) / bi
            md["wallet"][t] += F(amt)
        elif kind == "repay":
            a = md["bor"][t] * bi if amt is None else F(amt)
            mode = info["extra"]
            if mode == "cash":
                debit(a)
            else:
                cli, _ = ad.indices(mode)
                need = a * F(row[t]) / F(row[mode])
                have = md["sup"][mode] * cli
                if need > have:
                    # the chosen collateral is worth less than the repayment asked for: the whole collateral is used and the repayment shrinks to its worth
                    need = have
                    a = have * F(row[mode]) / F(row[t])
                    info["amount"] = "capped"
                md["sup"][mode] -= need / cli
                if md["sup"][mode] * cli < EPS:
                    del md["sup"][mode]
            md["bor"][t] -= a / bi
            if md["bor"][t] * bi < EPS:
                del md["bor"][t]

    def compare(self, ctx, hist, where):
        ad = ctx.adapters[0]
        m = ad.market
        md = ctx.model
        case = {"history": list(hist)}
        self.part.count("state_comparisons")
        sup_keys = {k.name for k in m._supplies}
        bor_keys = {k.name for k in m._borrows}
        if sup_keys != set(md["sup"]) or bor_keys != set(md["bor"]):
            self.part.violation(f"C10|{where}|entries", "set of open supply/borrow entries differs from the ledger (a fully repaid debt or "
                                "fully withdrawn supply must disappear, others must exist)", case,
                                {"impl": [sorted(sup_keys), sorted(bor_keys)], "model": [sorted(md["sup"]), sorted(md["bor"])]})
            return False
        ok = True
        for k in m._supplies:
            li, _ = ad.indices(k.name)
            got = F(m.get_supply(k).amount)
            want = md["sup"][k.name] * li
            if abs(got - want) > EPS + abs(want) / 10**25:
                self.part.violation(f"C10|{where}|supply-amount", "supplied balance differs from amount x index_now / index_then", case,
                                    {"token": k.name, "got": float(got), "want": float(want), "diff": float(got - want)})
                ok = False
        for k in m._borrows:
            _, bi = ad.indices(k.name)
            got = F(m.get_borrow(k).amount)
            want = md["bor"][k.name] * bi
            if abs(got - want) > EPS + abs(want) / 10**25:
                self.part.violation(f"C10|{where}|debt-amount", "debt differs from amount x borrow index ratio", case,
                                    {"token": k.name, "got": float(got), "want": float(want), "diff": float(got - want)})
                ok = False
        # the public listings show the same balances as the single-position lookups
        try:
            listed_s = {k.name: F(v.amount) for k, v in m.supplies.items()}
            listed_b = {k.name: F(v.amount) for k, v in m.borrows.items()}
        except kit.REJECTIONS as e:
            self.part.violation(f"C10|{where}|listing-raised", "reading the supplies / borrows listing raised", case, {"error": repr(e)[:160]})
            listed_s = listed_b = None
        if listed_s is not None:
            for name, listed, sec, idx in (("supplies", listed_s, "sup", 0), ("borrows", listed_b, "bor", 1)):
                want = {k: md[sec][k] * ad.indices(k)[idx] for k in md[sec]}
                if set(listed) != set(want) or any(abs(listed[k] - want[k]) > EPS + abs(want[k]) / 10**25 for k in want):
                    self.part.violation(f"C10|{where}|listing-{name}", f"the {name} listing does not show amount x index_now / index_then for every position", case,
                                        {"listed": {k: float(v) for k, v in listed.items()}, "ledger": {k: float(v) for k, v in want.items()}})
                    ok = False
        for k, v in ctx.wallet().items():
            if abs(F(v) - md["wallet"][k]) > EPS:
                self.part.violation(f"C10|{where}|wallet", "wallet moved by something else than the stated amount", case,
                                    {"token": k, "got": float(v), "want": float(md["wallet"][k])})
                ok = False
        return ok

    def on_transition(self, ctx, hist, op, pre_raw, snap, out):
        part = self.part
        part.count("transitions")
        if op.kind == "advance":
            if not out.ok:
                part.violation("C10|advance|exception", "the end of a bar raised", {"history": list(hist)}, {"error": out.error})
                return
            self.compare(ctx, hist, "advance")
            if any(a for a in ctx.actions[snap["n_actions"]:]):
                # the alphabet keeps the ledger's account healthy (debts far below the limit, prices constant): a liquidation means the positions are not
                # what the ledger says they are
                part.violation("C10|advance|liquidated", "an account that is healthy by the ledger (amounts x index ratios) was liquidated at the end of a bar",
                               {"history": list(hist)}, {"actions": [type(a).__name__ for a in ctx.actions[snap["n_actions"]:]][:4]})
            return
        if not out.ok:
            part.count("rejected")
            # a refused operation moved nothing: positions and wallet still equal the ledger, which has not been stepped
            self.compare(ctx, hist, f"rejected-{op.kind}")
            return
        part.count("accepted")
        if op.kind == "repay-over":
            part.violation("C10|repay|more-than-owed-accepted", "a repayment of more than the debt was accepted (wallet and debt can not both move by the stated amount)",
                           {"history": list(hist)}, {"label": op.label})
            return
        info = ctx.last
        n_before = snap["n_actions"]
        try:
            self.step_model(ctx, info, None)
        except KeyError as e:
            # the market accepted an operation on a position the ledger does not have (after an earlier discrepancy): report it, the ledger can not follow
            part.violation(f"C10|{op.kind}|accepted-on-missing-position", "an operation on a supply / debt that does not exist by the ledger was accepted", {"history": list(hist)},
                           {"label": op.label, "missing": str(e)})
            return
        good = self.compare(ctx, hist, op.kind)
        # the action record must state the same amounts
        acts = ctx.actions[n_before:]
        if len(acts) != 1:
            part.violation(f"C10|{op.kind}|action-count", "an accepted operation must record exactly one action", {"history": list(hist)},
                           {"n": len(acts)})
        elif good:
            a = acts[0]
            md = ctx.model
            ad = ctx.adapters[0]
            t = info["token"]
            li, bi = ad.indices(t)
            after = None
            if op.kind in ("supply", "withdraw"):
                after = md["sup"].get(t, Fraction(0)) * li
                rec_after = F(a.deposit_after)
            else:
                after = md["bor"].get(t, Fraction(0)) * bi
                rec_after = F(a.debt_after)
            stated = info["amount"]
            if stated not in (None, "all", "capped") and F(a.amount) != F(stated):
                part.violation(f"C10|{op.kind}|action-amount", "action record does not state the requested amount", {"history": list(hist)},
                               {"recorded": float(a.amount), "stated": float(stated)})
            if abs(rec_after - after) > EPS + abs(after) / 10**25:
                part.violation(f"C10|{op.kind}|action-after", "action record's balance-after differs from the position",
                               {"history": list(hist)}, {"recorded": float(rec_after), "ledger": float(after)})

    # ---- differentials from every reached state ----------------------------------------------------------------
    def on_state(self, ctx, hist):
        part = self.part
        part.count("states_visited")
        part.sample({"history": list(hist)}, every=257)
        ad = ctx.adapters[0]
        m = ad.market
        aave = self.world.aave
        snap = ctx.snapshot()

        def run(seq):
            ctx.restore(snap)
            try:
                for f in seq:
                    f()
                r = ctx.raw()
            except kit.REJECTIONS as e:  # the library refused an operation of the pair
                r = {"rejected": f"{type(e).__name__}: {e}"[:160]}
            ctx.restore(snap)
            return r

        def same(r1, r2):
            if "rejected" in r1 and "rejected" in r2:
                part.count("differential_rejected")  # both sides of the pair are refused (e.g. a collateral flag that does not match the existing supply)
                return True
            if "rejected" in r1 or "rejected" in r2:
                return False
            for sec in ("supplies", "borrows"):
                a, b = r1["aave"][sec], r2["aave"][sec]
                if set(a) != set(b):
                    return False
                for k in a:
                    if abs(F(a[k]["base"]) - F(b[k]["base"])) > EPS:
                        return False
            for k in set(r1["wallet"]) | set(r2["wallet"]):
                # two ways of paying the same total may differ by the wallet's rounding dust (a payment within 0.001 % of the balance sweeps the wallet)
                w1, w2 = F(r1["wallet"].get(k, 0)), F(r2["wallet"].get(k, 0))
                swept = (w1 == 0) != (w2 == 0)  # only a wallet that one of the two ways has emptied is granted the dust
                dust = Fraction(1, 10**5) * F(snap["assets"].get(next((tk for tk in snap["assets"] if tk.name == k), None), 0)) if swept else Fraction(0)
                if abs(w1 - w2) > EPS + dust:
                    return False
            return True

        case = {"history": list(hist)}
        for t in self.world.toks:
            a = STATED[t.name]
            part.count("differentials")
            if not same(run([lambda: m.supply(t, a)]), run([lambda: m.supply(t, a / 2), lambda: m.supply(t, a / 2)])):
                part.violation("C10|split|supply", "supply(a) differs from supply(a/2); supply(a/2) by more than 1e-18", dict(case, token=t.name))
            if t in m._supplies and m.get_supply(t).amount > a:
                part.count("differentials")
                try:
                    r1 = run([lambda: m.withdraw(t, a / 4)])
                    r2 = run([lambda: m.withdraw(t, a / 8), lambda: m.withdraw(t, a / 8)])
                    if not same(r1, r2):
                        part.violation("C10|split|withdraw", "withdraw(x) differs from withdraw(x/2) twice by more than 1e-18", dict(case, token=t.name))
                except AssertionError:
                    part.count("differential_rejected")
            if t in m._borrows and m.get_borrow(t).amount > 0:  # (an entry of exactly 0, left by a borrow of 0, is no debt to repay)
                d = m.get_borrow(t).amount
                part.count("differentials")
                if ctx.wallet().get(t.name, 0) > d * 2:
                    # the wallet covers the debt twice over: repaying all of it, in one step or after a partial repayment, must be accepted and must close the debt
                    for lab, seq in (("one-step", [lambda: m.repay(t)]), ("two-steps", [lambda: m.repay(t, d / 2), lambda: m.repay(t)])):
                        r = run(seq)
                        if "rejected" in r or t.name in r["aave"]["borrows"]:
                            part.violation(f"C10|repay-all|{lab}", "repaying a whole debt that the wallet covers was refused or left the debt open", dict(case, token=t.name),
                                           {"outcome": r.get("rejected", "debt still listed")})
                r1 = run([lambda: m.repay(t, d / 3), lambda: m.repay(t, d / 4)])
                r2 = run([lambda: m.repay(t, d / 3 + d / 4)])
                if not same(r1, r2):
                    part.violation("C10|merge|repay", "repay(x); repay(y) differs from repay(x+y) by more than 1e-18", dict(case, token=t.name))
                # full repayment in two steps == in one step (entry disappears)
                r1 = run([lambda: m.repay(t, d / 2), lambda: m.repay(t)])
                r2 = run([lambda: m.repay(t)])
                if not same(r1, r2):
                    part.violation("C10|merge|repay-all", "repaying all in two steps differs from one step", dict(case, token=t.name))
                # interposed operation on another token changes nothing
                other = aave.WETH
                part.count("differentials")
                r1 = run([lambda: m.supply(other, Decimal(1)), lambda: m.repay(t, d / 3)])
                r2 = run([lambda: m.repay(t, d / 3), lambda: m.supply(other, Decimal(1))])
                if not same(r1, r2):
                    part.violation("C10|commute|repay-supply", "an operation on another token changes the result of a repay", dict(case, token=t.name))
        ctx.restore(snap)

    def finish(self):
        pass


def run_partition(args):
    seed, depth, dev, first = args[:4]
    world = make_world(resampled=len(args) > 4 and args[4])
    part = Part(seed)
    orc = Oracle(part, world)
    stats = kit.explore(world.build, alphabet(world), depth, dev, orc.on_transition, on_state=orc.on_state, roots=((),), first=first)
    r = part.result()
    r["stats"] = stats
    return r


def main(run: Run):
    depth, dev = run.pick((4, 1), (5, 2))  # (thorough was 6 events before the alphabet grew by the zero-amount and near-wallet classes: 22 minutes; 5 events with 2 deviations now)
    world = make_world()
    ctx = world.build()
    labels = [o.label for o in alphabet(world)(ctx)]
    jobs = [(run.seed, depth, dev, frozenset([l])) for l in run.rotate(labels)]
    jobs += [(run.seed, min(depth - 1, 4), min(dev, 1), frozenset([l]), True) for l in labels]  # the same alphabet on three-minute bars resampled from minute rows
    tot = {"states": 0, "transitions": 0, "complete": 0}
    for r in pmap(run_partition, jobs):
        run.merge(r)
        for k in tot:
            tot[k] += r["stats"][k]
    cov = {
        "states": max(tot["states"], 1), "transitions": max(tot["transitions"], 1),
        "traces_validated_against_impl": tot["complete"],
        "evaluations": tot["transitions"],
        "distinct_nontrivial": run.counters.get("state_comparisons", 0),
        "rule": f"events: bar advance (per-token index steps x1 / x1.0005 / x1.013, different for every token and for supply vs borrow "
                f"index), supply, withdraw(part|None|all), borrow, repay(part|None; cash | own collateral | other collateral) over WETH, "
                f"USDC, DAI; all sequences <= {depth} events with <= {dev} deviations over {N_BARS} bars; after every accepted event the "
                "position amounts, the set of open entries, the wallet and the action record are compared with an exact ledger of scaled "
                "lots; from every reached state split/merge/commutation differentials are run.",
        "differentials": run.counters.get("differentials", 0),
        "exhaustive": True,
        "completed_bound": {"depth": depth, "deviations": dev},
    }
    return run.finish(cov, ["tolerance 1e-18 absolute (+1e-25 relative), as in the property statement",
                            "amounts are chosen away from the wallet's 1e-5 snap band (that band is C03's subject)"])


def replay(run: Run, path):
    import json

    data = json.load(open(path))
    hist = data["case"]["history"]
    world = make_world()
    part = Part()
    orc = Oracle(part, world)
    ctx = world.build()
    alph = alphabet(world)
    for i, lab in enumerate(hist):
        ops = {o.label: o for o in alph(ctx)}
        snap = ctx.snapshot()
        pre = ctx.raw()
        out = kit.apply(ctx, ops[lab])
        orc.on_transition(ctx, hist[:i + 1], ops[lab], pre, snap, out)
    orc.on_state(ctx, hist)
    for sig, v in part.violations.items():
        print("reproduced:", sig, v[0], v[2])
    print("REPLAY", "violations" if part.violations else "clean")
    return 1 if part.violations else 0
