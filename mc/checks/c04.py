"""C04 — a rejected operation leaves wallet, positions, order book and action log intact.

Explicit-state exploration of every world's operation alphabet (argument classes built to hit each precondition
separately) from every state reachable within the bound; oracle on every rejected transition: raw state after ==
raw state before, exactly; multi-step helpers judged per completed constituent; one-step look-ahead differential
to expose hidden state (caches) changed by a rejection."""
from __future__ import annotations

from decimal import Decimal

import json

from mc.checks import opscommon
from mc.engine.core import Run
from mc.worlds import kit

LEVEL = "model_checking"


def diff_fields(a, b, prefix=""):
    out = []
    if isinstance(a, dict) and isinstance(b, dict):
        for k in sorted(set(a) | set(b), key=str):
            if k not in a or k not in b:
                out.append(f"{prefix}{k}")
            else:
                out += diff_fields(a[k], b[k], f"{prefix}{k}.")
        return out
    if isinstance(a, (list, tuple)) and isinstance(b, (list, tuple)):
        if len(a) != len(b):
            return [prefix.rstrip(".")]
        for i, (x, y) in enumerate(zip(a, b)):
            out += diff_fields(x, y, f"{prefix}{i}.")
        return out
    if a != b or type(a) is not type(b) and not (isinstance(a, (int, float)) or hasattr(a, "is_finite")):
        return [prefix.rstrip(".")]
    return []


def generalise(fields):
    """Field paths -> stable signature part (drop position keys / token names / indices)."""
    out = set()
    for f in fields:
        parts = f.split(".")
        if parts[0] == "wallet":
            out.add("wallet")
            continue
        keep = [p for p in parts if not any(ch.isdigit() for ch in p) or p in ("p0", "p1")]
        leaf = keep[-1] if keep[-1] in ("liq", "p0", "p1", "base", "collateral", "transferred", "asks", "bids") else None
        out.add(".".join(keep[:2] + ([leaf] if leaf and len(keep) > 2 else [])))
    return ",".join(sorted(out))


def cause_of(out):
    t, msg = out.error
    msg = msg.lower()
    for key in ("insufficient", "not enough", "health factor", "collateral", "not safe", "dust", "not open", "invalid amount",
                "exceed", "not exist", "not in", "tick", "same", "no such", "min amount", "order", "price", "negative", "larger",
                "balance", "amount"):
        if key in msg:
            return f"{t}:{key}"
    return t


class Oracle:
    def __init__(self, part, world):
        self.part = part
        self.world = world
        self.causes = set()

    def on_state(self, ctx, hist):
        self.part.count("states_visited")

    def on_transition(self, ctx, hist, op, pre_raw, snap, out):
        part = self.part
        part.count("transitions")
        if out.ok:
            part.count("accepted")
            return
        part.count("rejected")
        cause = cause_of(out)
        self.causes.add((op.kind, cause))
        post_raw = ctx.raw()
        case = {"world": self.world.name, "history": list(hist), "error": list(out.error)}
        expected = pre_raw
        baseline = snap
        if op.meta.get("multi") and getattr(ctx, "spy_log", None):
            log = ctx.spy_log
            done = [e for e in log if e[3] == "completed"]
            if done or op.meta.get("prefix"):
                post_snap = ctx.snapshot()
                spy_arg = getattr(ctx, "spy_arg", None)
                ctx.restore(snap)
                ctx.spy_arg = spy_arg
                m = op.meta["market"]
                if op.meta.get("prefix"):
                    op.meta["prefix"](ctx, log)
                else:
                    for name, a, k, _ in done:
                        getattr(m, name)(*a, **k)
                expected = ctx.raw()
                baseline = ctx.snapshot()
                ctx.restore(post_snap)
                part.count("multi_step_prefix_judged")
        changed = diff_fields(expected, post_raw)
        if changed:
            part.violation(f"C04|{op.kind}|{cause}|changed:{generalise(changed)}",
                           f"{op.kind} raised ({cause}) but changed {generalise(changed)}", case,
                           {"changed": changed[:8], "label": op.label})
            return
        part.sample(case, every=4001)
        # hidden-state differential: every default operation must behave the same after the rejection as before it
        post_snap = ctx.snapshot()
        own = op.kind.split(".")[0]
        # boundary / to-be-rejected follow-ups are tried once per (state, operation, cause): which amount class provoked the cause does not matter for
        # what a rejection may leave behind (the snapshot dict is the same object for every call made from one state)
        seen = snap.setdefault("_c04_seen", {})
        n_seen = seen.get((op.kind, cause), 0)
        seen[(op.kind, cause)] = n_seen + 1
        with_deviations = n_seen == 0
        if n_seen >= 2:
            # the default follow-ups are tried after the first two argument classes that provoke a cause of an operation in a state (the later ones leave the
            # same kind of thing behind, if anything; their own state comparison above is made for every single call)
            part.count("lookahead_skipped_same_cause")
            return
        for nxt in self.world.alphabet(ctx):
            # every default operation, and every boundary / to-be-rejected operation of the market whose call was just rejected (a rejection must not
            # disarm the protection of the NEXT rejected call either)
            if nxt.deviation and (nxt.kind.split(".")[0] != own or not with_deviations):
                continue
            o1 = kit.apply(ctx, nxt)
            r1 = ctx.raw()
            ctx.restore(baseline)
            # a zero-balance wallet entry is the same holding as no entry (raw() treats them alike): the comparison run gets the same
            # entries, so that mere entry presence (the library refuses to debit 0 from a token it has no entry for) is not a difference
            for k, bal in post_snap["assets"].items():
                if bal == 0 and k not in ctx.broker.assets:
                    from demeter import Asset

                    ctx.broker._assets[k] = Asset(k, Decimal(0))
            labels = {o.label: o for o in self.world.alphabet(ctx)}
            if nxt.label in labels:
                o2 = kit.apply(ctx, labels[nxt.label])
                r2 = ctx.raw()
                part.count("lookahead_pairs")
                if o1.ok != o2.ok or diff_fields(r2, r1):
                    ch = diff_fields(r2, r1)
                    part.violation(f"C04|{op.kind}|{cause}|hidden-state|then:{nxt.kind}",
                                   f"after the rejected {op.kind} ({cause}) a following {nxt.kind} behaves differently than without it",
                                   dict(case, then=nxt.label), {"changed": ch[:8], "ok_after": o1.ok, "ok_without": o2.ok})
            ctx.restore(post_snap)

    def finish(self):
        pass


def main(run: Run):
    depth, dev = run.pick((2, 1), (3, 2))
    totals, per_world, causes = opscommon.run_all(run, "mc.checks.c04", depth, dev)
    cov = {
        "states": max(totals["states"], 1),
        "transitions": max(totals["transitions"], 1),
        "traces_validated_against_impl": totals["complete"],
        "evaluations": totals["transitions"],
        "distinct_nontrivial": len(causes),
        "rule": "explicit-state DFS over operation labels (operation x argument class resolved against the current state) of every "
                f"world, from every seeded portfolio, depth <= {depth} with <= {dev} deviations before the judged call; every "
                "rejected call is judged (state equality) and followed by a one-step look-ahead differential. "
                "distinct_nontrivial = number of distinct (operation, rejection cause) pairs actually reached.",
        "accepted": totals["accepted"], "rejected": totals["rejected"],
        "per_world": per_world,
        "rejection_causes_reached": [f"{k}|{c}" for k, c in causes],
        "distinct_outcomes": totals["distinct_outcomes"],
        "exhaustive": True,
        "completed_bound": {"depth": depth, "deviations": dev},
    }
    return run.finish(cov, [
        "raw state = wallet balances, every market's position containers, visible order book, action-log length",
        "multi-step helpers (add_liquidity_by_value, remove_liquidity(collect), remove_all_liquidity) may leave exactly their completed constituent calls applied",
        "open_deposit_mint and burn_and_withdraw mirror single on-chain transactions and are judged as one",
    ])


def replay(run: Run, path):
    data, case = opscommon.load_case(path)
    from mc.engine.core import Part

    world = opscommon.get_world(case["world"])
    hist = case["history"]
    part = Part()
    orc = Oracle(part, world)
    ctx = world.build()
    for i, lab in enumerate(hist):
        ops = {o.label: o for o in world.alphabet(ctx)}
        pre = ctx.raw()
        snap = ctx.snapshot()
        out = kit.apply(ctx, ops[lab])
        if i == len(hist) - 1:
            orc.on_transition(ctx, hist, ops[lab], pre, snap, out)
            print("last call:", lab, "ok" if out.ok else out.error)
    for sig, v in part.violations.items():
        print("reproduced:", sig, v[0], v[2])
    print("REPLAY", "violations" if part.violations else "clean")
    return 1 if part.violations else 0
