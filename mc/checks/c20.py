"""C20 — performance metrics equal their definitions.

Exhaustive enumeration of all net-value series over a small value alphabet up to a length bound
(x scales x sampling intervals), every metric function compared with a brute-force / pure-Python
recomputation.  Depth-1 exploration: the "state" is the input series.
"""
from __future__ import annotations

import itertools
import json
import math
from fractions import Fraction

import numpy as np
import pandas as pd

from mc.engine.core import Part, Run, chunks, pmap

LEVEL = "exploration"

VALUES = [Fraction(1), Fraction(2), Fraction(3), Fraction(5), Fraction(8), Fraction(1, 2)]
SCALES = [Fraction(1), Fraction(1, 1000), Fraction(10**6)]
# 36h gives spans that are not whole days, 7D / 36h do not divide a 365-day year evenly
INTERVALS = [("1min", 1 / 1440), ("1h", 1 / 24), ("1D", 1.0), ("36h", 1.5), ("7D", 7.0)]
REL = 1e-9


def close(a, b, rel=REL, abs_=1e-12):
    if a is None or b is None:
        return a is None and b is None
    a = float(a)
    b = float(b)
    if math.isnan(a) or math.isnan(b):
        return math.isnan(a) and math.isnan(b)
    if math.isinf(a) or math.isinf(b):
        return a == b
    return abs(a - b) <= abs_ + rel * max(abs(a), abs(b))


# ---- reference definitions (pure Python, exact where possible) -------------------------------
def ref_mdd(vals):
    """max over i<=j of (1 - v_j / max(v_0..v_i))^+, brute force over all pairs."""
    best = Fraction(0)
    for i in range(len(vals)):
        for j in range(i, len(vals)):
            d = 1 - vals[j] / vals[i]
            if d > best:
                best = d
    return best


def ref_std(xs):
    n = len(xs)
    if n < 2:
        return None
    m = math.fsum(xs) / n
    return math.sqrt(math.fsum((x - m) ** 2 for x in xs) / (n - 1))


def ref_cov(xs, ys):
    n = len(xs)
    mx = math.fsum(xs) / n
    my = math.fsum(ys) / n
    return math.fsum((x - mx) * (y - my) for x, y in zip(xs, ys)) / (n - 1)


def check_series(part: Part, vals, calc, core):
    """All single-series checks for one series of Fractions (scale 1) — scales applied inside."""
    n = len(vals)
    expected_mdd = ref_mdd(vals)
    nonfalling = all(vals[i] <= vals[i + 1] for i in range(n - 1))
    for sc in SCALES:
        fv = [float(v * sc) for v in vals]
        s = pd.Series(fv)
        part.count("evaluations")
        got = calc.max_draw_down(s)
        if not close(got, expected_mdd, rel=1e-9):
            kind = "rising" if nonfalling else "mixed"
            part.violation(f"C20|max_draw_down|value!=definition|{kind}",
                           f"max_draw_down differs from largest relative peak-to-later decline ({kind} series)",
                           {"fn": "max_draw_down", "series": fv},
                           {"got": got, "expected": float(expected_mdd)})
        else:
            if nonfalling and float(got) != 0.0:
                part.violation("C20|max_draw_down|nonfalling!=0", "never-falling series must give 0",
                               {"fn": "max_draw_down", "series": fv}, {"got": got})
            if not (-1e-15 <= float(got) <= 1 + 1e-15):
                part.violation("C20|max_draw_down|outside[0,1]", "drawdown outside [0,1]",
                               {"fn": "max_draw_down", "series": fv}, {"got": got})
    # remaining metrics at scale 1 and one other scale (ratios are scale-free; values differ in float)
    for sc in (SCALES[0], SCALES[2]):
        fv = [float(v * sc) for v in vals]
        s = pd.Series(fv)
        mult = [fv[i] / fv[i - 1] for i in range(1, n)]
        rates = [m - 1 for m in mult]
        # return series
        rm = list(calc.return_multiple(s))
        if not (len(rm) == n and close(rm[0], 1) and all(close(a, b) for a, b in zip(rm[1:], mult))):
            part.violation("C20|return_multiple|value", "return_multiple != v[t]/v[t-1] (1 first)",
                           {"fn": "return_multiple", "series": fv}, {"got": rm})
        rr = list(calc.return_rate_series(s))
        if not (len(rr) == n and close(rr[0], 0) and all(close(a, b, abs_=1e-15) for a, b in zip(rr[1:], rates))):
            part.violation("C20|return_rate_series|value", "return_rate_series != v[t]/v[t-1]-1 (0 first)",
                           {"fn": "return_rate_series", "series": fv}, {"got": rr})
        part.count("evaluations", 2)
        total = float(vals[-1] / vals[0])
        if not close(calc.return_rate(fv[0], fv[-1]), total - 1):
            part.violation("C20|return_rate|value", "return_rate != final/init-1", {"fn": "return_rate", "series": fv})
        if not close(calc.return_value(fv[0], fv[-1]), fv[-1] - fv[0]):
            part.violation("C20|return_value|value", "return_value != final-init", {"fn": "return_value", "series": fv})
        for dur in (0.5, 30.0, 365.0):
            try:
                expected = total ** (365 / dur) - 1
            except OverflowError:
                part.count("annualized_overflow_skipped")
                continue
            big = abs(expected) > 1e250 or math.isinf(expected)
            if big:
                part.count("annualized_overflow_skipped")
                continue
            a = calc.annualized_return(dur, fv[0], fv[-1])
            b = calc.annualized_return(dur, net_values=s)
            c = calc.annualized_return(dur, return_rates=pd.Series(rr))
            part.count("evaluations", 3)
            if not big:
                for name, g in (("endpoints", a), ("net_values", b), ("return_rates", c)):
                    if not close(g, expected, rel=1e-7):
                        part.violation(f"C20|annualized_return|{name}!=definition",
                                       f"compound annualized return ({name} form) differs from (final/init)^(365/d)-1",
                                       {"fn": "annualized_return", "series": fv, "duration": dur, "form": name},
                                       {"got": g, "expected": expected})
            es = (total - 1) / (dur / 365)
            a = calc.annualized_return(dur, fv[0], fv[-1], interest_type="single")
            b = calc.annualized_return(dur, net_values=s, interest_type="single")
            for name, g in (("endpoints", a), ("net_values", b)):
                if not close(g, es, rel=1e-9):
                    part.violation(f"C20|annualized_return_single|{name}!=definition",
                                   "single-interest annualized return differs from its definition",
                                   {"fn": "annualized_return_single", "series": fv, "duration": dur, "form": name},
                                   {"got": g, "expected": es})
    # interval-dependent metrics + performance_metrics at scale 1
    fv = [float(v) for v in vals]
    mult = [fv[i] / fv[i - 1] for i in range(1, n)]
    rates = [m - 1 for m in mult]
    sd = ref_std(rates)
    # unsigned integer series (balances in smallest units): a drawdown is a drawdown
    if all(v.denominator == 1 for v in vals):
        part.count("evaluations")
        with np.errstate(all="ignore"):
            try:
                mu = float(calc.max_draw_down(pd.Series([int(v) for v in vals], dtype="uint64")))
            except Exception as e:  # noqa: BLE001
                mu = None
                part.violation(f"C20|unsigned-series|exception|{type(e).__name__}", f"max_draw_down raised on an unsigned integer series: {e}"[:160], {"fn": "integer_series", "series": fv})
        if mu is not None and not close(mu, expected_mdd, rel=1e-9):
            part.violation("C20|unsigned-series|max_draw_down", "max_draw_down of an unsigned-integer series differs from the definition", {"fn": "integer_series", "series": fv},
                           {"got": mu, "expected": float(expected_mdd)})
    # integer-typed series (whole-number net values, dtype int64): the same numbers must come out
    if all(v.denominator == 1 for v in vals):
        si = pd.Series([int(v) for v in vals], dtype="int64")
        part.count("evaluations", 4)
        part.count("integer_series")
        try:
            rm = list(calc.return_multiple(si))
            rr = list(calc.return_rate_series(si))
            md = calc.max_draw_down(si)
            an = calc.annualized_return(30.0, net_values=si)
        except Exception as e:  # noqa: BLE001
            part.violation(f"C20|integer-series|exception|{type(e).__name__}", f"a metric raised on an integer-typed series: {e}"[:160], {"fn": "integer_series", "series": fv})
        else:
            ok = len(rm) == n and close(rm[0], 1) and all(close(a, b) for a, b in zip(rm[1:], mult)) \
                and len(rr) == n and close(rr[0], 0) and all(close(a, b, abs_=1e-15) for a, b in zip(rr[1:], rates)) \
                and close(md, expected_mdd, rel=1e-9)
            tot = fv[-1] / fv[0]
            if ok and tot ** (365 / 30.0) < 1e250:
                ok = close(an, tot ** (365 / 30.0) - 1, rel=1e-7)
            if not ok:
                part.violation("C20|integer-series|value", "return series / drawdown / annualised return of an integer-typed series differ from their definitions",
                               {"fn": "integer_series", "series": fv}, {"return_multiple": [float(x) for x in rm], "max_draw_down": float(md), "annualized": float(an)})
    for i_freq, (freq, interval_in_day) in enumerate(INTERVALS):
        idx = pd.date_range("2024-01-01", periods=n, freq=freq.replace("1D", "1D"))
        s = pd.Series(fv, index=idx)
        duration_in_day = interval_in_day * n
        exp_vol = None if sd is None else sd * math.sqrt(365 / interval_in_day)
        part.count("evaluations", 2)
        if exp_vol is not None:
            g = calc.volatility(pd.Series(rates), interval_in_day)
            if not close(g, exp_vol, rel=1e-9, abs_=1e-9):
                part.violation("C20|volatility|value", "volatility != std(returns, ddof=1)*sqrt(365/interval)",
                               {"fn": "volatility", "series": fv, "interval": freq}, {"got": g, "expected": exp_vol})
        try:
            apr = float(vals[-1] / vals[0]) ** (365 / duration_in_day) - 1
        except OverflowError:
            apr = math.inf
        rf = (0.03, 0.0, 0.1)[i_freq % 3]  # the risk-free rate is an argument: the default, none at all, and a high one
        exp_sharpe = None
        if exp_vol is not None and exp_vol > 1e-9 and math.isfinite(apr):
            exp_sharpe = (apr - rf) / exp_vol
            with np.errstate(all="ignore"):
                g = calc.sharpe_ratio(interval_in_day, duration_in_day, s, rf)
            if not close(g, exp_sharpe, rel=1e-7):
                part.violation("C20|sharpe_ratio|value", "sharpe != (annualized return - rf)/annualized volatility",
                               {"fn": "sharpe_ratio", "series": fv, "interval": freq},
                               {"got": g, "expected": exp_sharpe})
        else:
            part.count("sharpe_undefined_skipped")
        with np.errstate(all="ignore"):
            pm = core.performance_metrics(s, annualized_risk_free_rate=rf)
        M = core.MetricEnum
        part.count("evaluations")
        exp = {
            M.start_val: fv[0], M.end_val: fv[-1], M.return_value: fv[-1] - fv[0],
            M.return_rate: fv[-1] / fv[0] - 1, M.max_draw_down: float(ref_mdd(vals)),
        }
        if math.isfinite(apr):
            exp[M.annualized_return] = apr
        if exp_vol is not None:
            exp[M.volatility] = exp_vol
        if exp_sharpe is not None:
            exp[M.sharpe_ratio] = exp_sharpe
        for k, e in exp.items():
            if not close(pm[k], e, rel=1e-7, abs_=1e-9):
                sig = f"C20|performance_metrics|{k.name}"
                if k == M.max_draw_down:
                    sig += "|rising" if all(vals[i] <= vals[i + 1] for i in range(n - 1)) else "|mixed"
                part.violation(sig, f"performance_metrics[{k.name}] differs from its definition",
                               {"fn": "performance_metrics", "series": fv, "interval": freq, "metric": k.name},
                               {"got": pm[k], "expected": e})
        if pm[M.start_period] != idx[0] or pm[M.end_period] != idx[-1] or \
                pm[M.duration] != (idx[-1] - idx[0]) + (idx[1] - idx[0]):
            part.violation("C20|performance_metrics|period", "start/end/duration wrong",
                           {"fn": "performance_metrics", "series": fv, "interval": freq, "metric": "period"})
        if i_freq == 1 and 3 <= n <= 5:  # (how the index is stored does not interact with the length of the series: lengths up to 5 in both tiers)
            # the same series as it arrives from other sources: a time index stored at another resolution (ns / ms / s), and a time-zone-aware index of a zone
            # whose clocks change inside the run (bars evenly spaced in TIME): duration and interval are spans of time, not of index units or wall-clock readings
            variants = [(f"unit={u}", s.set_axis(idx.as_unit(u))) for u in ("ns", "ms", "s")]
            tz_idx = pd.date_range("2024-03-30 20:00", periods=n, freq="4h", tz="Europe/Berlin")  # clocks go forward on 2024-03-31 02:00
            variants.append(("tz=Europe/Berlin across the clock change", pd.Series(fv, index=tz_idx)))
            for vname, vs in variants:
                v_int = interval_in_day if not vname.startswith("tz") else 4 / 24
                v_dur = v_int * n
                try:
                    v_apr = float(vals[-1] / vals[0]) ** (365 / v_dur) - 1
                except OverflowError:
                    continue
                with np.errstate(all="ignore"):
                    vpm = core.performance_metrics(vs, annualized_risk_free_rate=rf)
                part.count("evaluations")
                part.count("index_variants")
                v_vol = None if sd is None else sd * math.sqrt(365 / v_int)
                bad = (math.isfinite(v_apr) and not close(vpm[M.annualized_return], v_apr, rel=1e-7, abs_=1e-9)) or \
                    (v_vol is not None and not close(vpm[M.volatility], v_vol, rel=1e-7, abs_=1e-9))
                if bad:
                    part.violation(f"C20|performance_metrics|index-variant|{vname.split('=')[0]}", "annualised return / volatility change with the way the time index is stored (resolution, time zone)",
                                   {"fn": "performance_metrics", "series": fv, "interval": freq, "metric": vname},
                                   {"annualized_return": vpm[M.annualized_return], "expected": v_apr, "volatility": vpm[M.volatility], "expected_volatility": v_vol})
                    break
        if 4 <= n <= 5 and i_freq % 2 == 0:
            # a bar is missing from the history (an outage): the run still lasts from its first bar to the end of its last one, whatever the number of rows
            hidx = pd.date_range("2024-01-01", periods=n + 1, freq=freq).delete(n // 2 + 1)
            hs = pd.Series(fv, index=hidx)
            hdur = interval_in_day * (n + 1)
            with np.errstate(all="ignore"):
                hpm = core.performance_metrics(hs, annualized_risk_free_rate=rf)
            part.count("evaluations")
            part.count("holed_histories")
            try:
                hapr = float(vals[-1] / vals[0]) ** (365 / hdur) - 1
            except OverflowError:
                hapr = math.inf
            bad = hpm[M.duration] != (hidx[-1] - hidx[0]) + (hidx[1] - hidx[0]) or not close(hpm[M.return_rate], fv[-1] / fv[0] - 1, rel=1e-9) \
                or (math.isfinite(hapr) and not close(hpm[M.annualized_return], hapr, rel=1e-7, abs_=1e-9))
            if bad:
                part.violation("C20|performance_metrics|holed-history", "with a bar missing from the history the duration / annualised return is not that of first bar .. end of last bar",
                               {"fn": "performance_metrics", "series": fv, "interval": freq, "metric": "holed"}, {"annualized_return": hpm[M.annualized_return], "expected": hapr,
                                                                                                                      "duration": str(hpm[M.duration])})


def work_series(args):
    seed, series_list = args
    from demeter.result.metrics import calculator as calc
    from demeter.result.metrics import core

    part = Part(seed)
    seen = set()
    for vals in series_list:
        vals = [Fraction(v) for v in vals]
        part.count("series")
        part.sample({"series": [str(v) for v in vals]}, every=997)
        try:
            check_series(part, vals, calc, core)
        except Exception as e:  # an exception of a metric function on a positive series is a violation
            part.violation(f"C20|exception|{type(e).__name__}", f"metric raised {type(e).__name__}: {e}",
                           {"fn": "any", "series": [float(v) for v in vals]})
        key = tuple(v / vals[0] for v in vals)
        if len(set(vals)) > 1:
            seen.add(hash(key))
    r = part.result()
    r["shapes"] = seen
    return r


def work_bench(args):
    seed, pairs_a, all_b, n = args
    from demeter.result.metrics import calculator as calc
    from demeter.result.metrics import core

    part = Part(seed)
    idx = pd.date_range("2024-01-01", periods=n, freq="1D")
    for a in pairs_a:
        fa = [float(Fraction(v)) for v in a]
        ra = [fa[i] / fa[i - 1] for i in range(1, n)]
        sa = pd.Series(fa, index=idx)
        for b in all_b:
            fb = [float(Fraction(v)) for v in b]
            rb = [fb[i] / fb[i - 1] for i in range(1, n)]
            part.count("benchmark_pairs")
            var_b = ref_cov(rb, rb)
            if var_b < 1e-12:
                part.count("beta_undefined_skipped")
                continue
            beta = ref_cov(ra, rb) / var_b
            dur = float(n)
            apy_a = (fa[-1] / fa[0]) ** (365 / dur) - 1
            apy_b = (fb[-1] / fb[0]) ** (365 / dur) - 1
            alpha = apy_a - beta * apy_b
            # the same benchmark as a QUIET asset (its moves scaled down to 1e-5): beta is a ratio, a small variance is not a zero variance
            fq = [1000.0 * (1 + 1e-5 * (v - fb[0])) for v in fb]
            rq = [fq[i] / fq[i - 1] for i in range(1, n)]
            var_q = ref_cov(rq, rq)
            if var_q > 1e-13:
                beta_q = ref_cov(ra, rq) / var_q
                with np.errstate(all="ignore"):
                    _, gq = calc.alpha_beta(sa, pd.Series(fq, index=idx), dur)
                part.count("evaluations")
                if not close(gq, beta_q, rel=1e-6, abs_=1e-6):
                    part.violation("C20|alpha_beta|beta|quiet-benchmark", "beta against a low-variance benchmark != cov(r_p, r_b)/var(r_b)",
                                   {"fn": "alpha_beta", "series": fa, "benchmark": fq}, {"got": gq, "expected": beta_q})
            sb = pd.Series(fb, index=idx)
            with np.errstate(all="ignore"):
                ga, gb = calc.alpha_beta(sa, sb, dur)
            part.count("evaluations")
            if not close(gb, beta, rel=1e-7, abs_=1e-9):
                part.violation("C20|alpha_beta|beta", "beta != cov(r_p, r_b)/var(r_b)",
                               {"fn": "alpha_beta", "series": fa, "benchmark": fb}, {"got": gb, "expected": beta})
            # (beta is compared to 1e-9 absolute: alpha = apy_p - beta x apy_b inherits that times the benchmark's annualised return, which can be astronomic on a 4-day toy series)
            elif math.isfinite(alpha) and not close(ga, alpha, rel=1e-6, abs_=1e-6 * max(1.0, abs(apy_a), abs(beta * apy_b)) + 1e-9 * abs(apy_b)):
                part.violation("C20|alpha_beta|alpha", "alpha != apy_p - beta*apy_b",
                               {"fn": "alpha_beta", "series": fa, "benchmark": fb}, {"got": ga, "expected": alpha})
            # the benchmark is a series of the same length; how it is labelled (bars stamped at close time, a plain range) does not enter the definition
            for lab, other in (("shifted", pd.Series(fb, index=idx + pd.Timedelta(days=1))), ("range", pd.Series(fb))):
                with np.errstate(all="ignore"):
                    ga2, gb2 = calc.alpha_beta(sa, other, dur)
                part.count("evaluations")
                if not close(gb2, beta, rel=1e-7, abs_=1e-9) or (math.isfinite(alpha) and not close(ga2, alpha, rel=1e-6, abs_=1e-6 * max(1.0, abs(apy_a), abs(beta * apy_b)) + 1e-9 * abs(apy_b))):
                    part.violation(f"C20|alpha_beta|benchmark-labels|{lab}", "alpha / beta change when the benchmark series carries other index labels", 
                                   {"fn": "alpha_beta", "series": fa, "benchmark": fb, "labels": lab}, {"got": [ga2, gb2], "expected": [alpha, beta]})
                    break
            if a is pairs_a[0] and b is all_b[min(3, len(all_b) - 1)]:
                with np.errstate(all="ignore"):
                    pm = core.performance_metrics(sa, benchmark=sb)
                M = core.MetricEnum
                ok = close(pm[M.beta], beta, rel=1e-7, abs_=1e-9) and close(pm[M.benchmark_rate], fb[-1] / fb[0] - 1) \
                    and close(pm[M.annualized_benchmark_rate], apy_b, rel=1e-7)
                if not ok:
                    part.violation("C20|performance_metrics|benchmark", "benchmark metrics differ from definitions",
                                   {"fn": "performance_metrics_bench", "series": fa, "benchmark": fb})
                # the report belongs to the caller (who may edit it), and the next report, asked for WITHOUT a benchmark, has no benchmark figures (they are
                # "not calculated": not numbers left over from an earlier call)
                for k in list(pm):
                    pm[k] = -12345.678
                with np.errstate(all="ignore"):
                    pm2 = core.performance_metrics(sa)
                part.count("evaluations")
                left = {k.name: pm2[k] for k in (M.alpha, M.beta, M.benchmark_rate, M.annualized_benchmark_rate) if k in pm2 and pm2[k] is not None
                        and isinstance(pm2[k], (int, float, np.floating)) and math.isfinite(float(pm2[k]))}
                if left or not close(pm2[M.return_rate], fa[-1] / fa[0] - 1, rel=1e-9) or not close(pm2[M.end_val], fa[-1]):
                    part.violation("C20|performance_metrics|leftover-benchmark", "a report asked for without a benchmark carries benchmark figures (or edited values) of an earlier report",
                                   {"fn": "performance_metrics_bench", "series": fa, "benchmark": fb}, {"leftover": {k: float(v) for k, v in left.items()}})
    return part.result()


def enumerate_series(maxlen):
    vs = [str(v) for v in VALUES]
    for n in range(2, maxlen + 1):
        for t in itertools.product(vs, repeat=n):
            yield t


def main(run: Run):
    maxlen = run.pick(5, 7)
    bench_len = run.pick(3, 4)
    series = run.rotate(list(enumerate_series(maxlen)))
    parts = pmap(work_series, [(run.seed, c) for c in chunks(series, 64)])
    shapes = set()
    for p in parts:
        shapes |= p.pop("shapes")
        run.merge(p)
    for n in range(3, bench_len + 1):
        allb = list(itertools.product([str(v) for v in VALUES], repeat=n))
        for p in pmap(work_bench, [(run.seed, c, allb, n) for c in chunks(run.rotate(allb), 64)]):
            run.merge(p)
    cov = {
        "evaluations": run.counters.get("evaluations", 0),
        "distinct_nontrivial": len(shapes),
        "rule": f"all series of length 2..{maxlen} over values {[str(v) for v in VALUES]} (x scales "
                f"{[str(s) for s in SCALES]}, x intervals 1min/1h/1D/36h/7D); benchmark = all series of the same length for "
                f"length <= {bench_len}. distinct_nontrivial = number of distinct non-constant series shapes "
                f"(series divided by its first value). Metrics whose definition is undefined on a case (zero "
                f"variance) are counted in *_undefined_skipped and not judged.",
        "series": run.counters.get("series", 0),
        "exhaustive": True,
        "completed_bound": {"max_length": maxlen, "benchmark_max_length": bench_len},
    }
    return run.finish(cov, [
        "float comparison tolerance 1e-9 relative (1e-7 where the library exponentiates by 365/duration)",
        "the definitions judged are those in the property statement and in the functions' docstrings",
    ])


def replay(run: Run, path):
    from demeter.result.metrics import calculator as calc
    from demeter.result.metrics import core

    data = json.load(open(path))
    case = data["case"]
    part = Part()
    vals = [Fraction(str(v)).limit_denominator(10**9) for v in case["series"]]
    if "benchmark" in case:
        r = work_bench((0, [tuple(str(Fraction(str(v)).limit_denominator(10**9)) for v in case["series"])],
                        [tuple(str(Fraction(str(v)).limit_denominator(10**9)) for v in case["benchmark"])],
                        len(vals)))
        viol = r["violations"]
    else:
        # undo the scale so the same checks run
        check_series(part, vals, calc, core)
        viol = part.violations
    for sig, (what, c, d, n) in viol.items():
        print("reproduced:", sig, what, d)
    print("REPLAY", "violations" if viol else "clean")
    return 1 if viol else 0
