"""C02 — no look-ahead: bars 0..k depend only on data of bars 0..k; inputs stay intact.

Differential exploration through the REAL Actuator.run: for every world, every cut k, every future variant F
(future rows reversed in time, scaled / shocked, truncated right after the cut) and every scripted strategy (idle, a
seeded portfolio, trading every bar, a data-dependent one that trades on what the snapshot shows), the base history H
and H' = H[0..k] ++ F are both run with fresh objects; account history rows 0..k, all actions stamped <= bar k and the
digests of every snapshot handed to the strategy for bars <= k (taken at hand-over) must be identical.  The variant is
applied to the RAW input frames, before the repository's own preparation code (statistic columns with shift(1), price
extraction, resampling) runs, so that code is inside the comparison.  Inputs intact: content digests of every frame a
run was given (incl. the order-book lists) before vs after, and a second run on the same frames with fresh objects
reproducing history and actions exactly."""
from __future__ import annotations

import itertools
import json
from decimal import Decimal

import pandas as pd

from mc.engine.core import Part, Run, chunks, pmap
from mc.worlds import kit
from mc.worlds.base import frame_digest

LEVEL = "model_checking"
INTERVALS = {"1min": 1, "2min": 2, "5min": 5}


def world_makers():
    from mc.worlds import catalog

    return {
        "uni(q0)": lambda: catalog.uni_world("q0", closes=(200000, 200013, 199991, 199400, 200300, 200010)),
        "uni(q1)": lambda: catalog.uni_world("q1", closes=(200000, 200013, 199991, 199400, 200300, 200010)),
        "uni(q0,late-price)": lambda: catalog.uni_world("q0", closes=(200000, 200013, 199991, 199400, 200300, 200010), late_price=True),
        "aave(path)": lambda: catalog.aave_path_world(5),
        "aave(path,late-listing)": lambda: catalog.aave_path_world(5, late_token="LINK"),
        "uni+aave": lambda: catalog.uni_aave_world(4),
        "squeeth(ne)": lambda: catalog.squeeth_world("ne", n=10),
        "deribit": lambda: catalog.deribit_world(),
        "deribit+uni": lambda: catalog.deribit_uni_world(2),
        "deribit(gap)+uni": lambda: catalog.deribit_uni_world(3, drop_hours=(1,)),  # the 01:00 book is missing: bars 60..119 have no book of their own
        "gmx1": lambda: catalog.gmx1_world(n=5),
        "gmx2(mild,small)": lambda: catalog.gmx2_world(kind="mild", impact="small", n=5),
    }


# ---- future variants, applied to raw frames ---------------------------------------------------------------------------------------
def _times(df):
    return df.index.get_level_values(0) if isinstance(df.index, pd.MultiIndex) else df.index


SCALE = [("Tick", "add", 700), ("inAmount", "mul", 3), ("currentLiquidity", "mul", Decimal("0.5")), ("liquidity_index", "mul", Decimal("1.07")),
         ("variable_borrow_index", "mul", Decimal("1.11")), ("norm_factor", "mul", Decimal("0.9")), ("mark_price", "mul", 1.2), ("underlying_price", "mul", 0.8),
         ("aum", "mul", Decimal("1.5")), ("_usdg", "mul", 2.0), ("glp_price", "mul", Decimal("1.5")), ("poolValue", "mul", 1.3), ("longPrice", "mul", 0.7),
         ("indexPrice", "mul", 0.7), ("impactPoolAmount", "mul", 10.0), ("longAmount", "mul", 1.4), ("rate", "mul", Decimal("2"))]
PRICE_SHOCK = {"LATE": Decimal("1.5"), "WETH": Decimal("0.5"), "WBTC": Decimal("0.7"), "DAI": Decimal("1.02"), "USDC": Decimal("0.99"), "ETH": Decimal("0.8")}


def variant_hook(kind, cut_ts):
    """hook(name, frame) -> frame whose rows with timestamp > cut_ts are replaced (the rows <= cut_ts are untouched, object for object)."""
    def hook(name, df):
        t = _times(df)
        fut = t > cut_ts
        if not fut.any():
            return df
        if kind == "truncate":
            return df.loc[~fut]
        df = df.copy()
        if kind == "reverse":
            # future time slots get the rows of the mirrored future slot
            uniq = sorted(set(t[fut]))
            mapping = dict(zip(uniq, reversed(uniq)))
            src = df.loc[fut]
            if isinstance(df.index, pd.MultiIndex):
                new_idx = pd.MultiIndex.from_tuples([(mapping[a], b) for a, b in src.index], names=df.index.names)
            else:
                new_idx = pd.Index([mapping[a] for a in src.index], name=df.index.name)
            src = src.copy()
            src.index = new_idx
            out = pd.concat([df.loc[~fut], src]).sort_index()
            return out
        if kind == "shock":
            for col in df.columns:
                if name.startswith("prices"):
                    f = PRICE_SHOCK.get(col)
                    if f is not None:
                        df.loc[fut, col] = [v * f for v in df.loc[fut, col]]
                    continue
                for pat, op, val in SCALE:
                    if pat in col:
                        vals = list(df.loc[fut, col])
                        if op == "add":
                            new = [v + val for v in vals]
                        else:
                            new = [(v * type(v)(val) if isinstance(v, Decimal) else v * float(val)) for v in vals]
                        df.loc[fut, col] = pd.Series(new, index=df.index[fut], dtype=df[col].dtype) if df[col].dtype != object else new
                        break
                if col in ("WETH",) and name == "squeeth.raw":
                    df.loc[fut, col] = [v * Decimal("1.6") for v in df.loc[fut, col]]
                if col in ("asks", "bids"):
                    df.loc[fut, col] = pd.Series([[[round(p * 1.2, 6), a + 1] for p, a in cell] for cell in df.loc[fut, col]], index=df.index[fut], dtype=object)
            return df
        raise ValueError(kind)
    return hook


def tz_hook(name, df):
    """the same history with a time-zone-aware (UTC) index, as exports of other tools deliver it"""
    if isinstance(df.index, pd.DatetimeIndex) and df.index.tz is None:
        df = df.copy()
        df.index = df.index.tz_localize("UTC")
    return df


def make_world(wname, variant=None):
    from mc.worlds import catalog

    catalog.RAW_HOOK[0] = (tz_hook if variant == "tz" else variant_hook(*variant)) if variant else None
    try:
        return world_makers()[wname]()
    finally:
        catalog.RAW_HOOK[0] = None


# ---- strategies ----------------------------------------------------------------------------------------------------------------------
def strategy_script(world, sname, n_bars):
    """-> (label script, custom hooks)"""
    root = world.roots[1] if len(world.roots) > 1 else ()
    base = [(0, "on_bar", l) for l in root]
    if sname == "idle":
        return [], None
    if sname == "seeded":
        return base, None
    ctx = _fresh0(world)
    kit_ops = [o.label for o in world.alphabet(kit.replay_history(lambda: _fresh0(world), world.alphabet, root)[0]) if not o.deviation]
    if sname == "every-bar":
        # cycles through the first and last default operation and, where the market has them, a mark-capped and a limit-priced option order
        all_labels = [o.label for o in world.alphabet(kit.replay_history(lambda: _fresh0(world), world.alphabet, root)[0])]
        cyc = ([kit_ops[0], kit_ops[-1]] if kit_ops else []) + [l for l in all_labels if l.endswith(("buy[C1,1,cap3]", "buy[C1,2,L0]", "sell[C1,1,cap3]"))]
        # cash moves in and out of the option account on any bar, also between two hourly books
        cyc += [l for l in all_labels if l in ("deribit.deposit[part]", "deribit.withdraw[part]")]
        sc = list(base)
        for b in range(1, n_bars):
            if cyc:
                sc.append((b, "on_bar" if b % 2 else "after_bar", cyc[(b - 1) % len(cyc)]))
        if n_bars > 30:  # hourly market beside a minutely one: make sure the option orders land on the open bar too
            sc += [(60, "on_bar", l) for l in cyc[2:]]
        return sc, None
    if sname == "data-dependent":
        lab_up, lab_dn = (kit_ops[0], kit_ops[-1]) if kit_ops else (None, None)
        return base, (lab_up, lab_dn)
    raise ValueError(sname)


def _fresh0(world):
    from mc.worlds import catalog

    catalog.AUTO_BEGIN[0] = False
    try:
        ctx = world.build()
    finally:
        catalog.AUTO_BEGIN[0] = True
    ctx.begin_bar(0)
    return ctx


def run_once(world, sname, interval):
    """One real backtest. Returns observations keyed for prefix comparison."""
    from mc.worlds import actdrv

    n_bars = len(_fresh0(world).index)
    script, dd = strategy_script(world, sname, n_bars)
    r = actdrv.Run(world, script, interval=interval, record_snapshots=True)
    if interval != "1min":
        # scripted bars refer to resampled bars: the driver's ctx must index the resampled grid
        idx = list(r.ctx.index)
        m = INTERVALS[interval]
        r.ctx.index = pd.DatetimeIndex(sorted({ts.floor(f"{m}min") for ts in idx}))
    if dd is not None:
        lab_up, lab_dn = dd
        st = r.strategy
        ref = {}

        def decide(strategy, snapshot):
            # trades on what the snapshot shows: the first price of the bar against the first bar's
            p = snapshot.prices.iloc[0]
            ref.setdefault("p0", p)
            lab = lab_up if p >= ref["p0"] else lab_dn
            if snapshot.row_id >= 1 and lab is not None:
                r.ctx.bar = snapshot.row_id
                r.ctx.__dict__.pop("_row_cache", None)
                ops = {o.label: o for o in world.alphabet(r.ctx)}
                if lab in ops:
                    out = kit.apply(r.ctx, ops[lab])
                    r.outcomes.append((snapshot.row_id, "on_bar", lab, "ok" if out.ok else "rejected", out.error))
        st.script.setdefault(("on_bar", "*"), []).append(decide)
    # the account history of a bar is fixed once the bar is over: every row is digested when the NEXT bar begins and again after the run
    rows_when_written = {}

    def remember(strategy, snapshot):
        lst = r.act.account_status
        if lst and len(lst) - 1 not in rows_when_written:
            rows_when_written[len(lst) - 1] = _status_digest(lst[-1])
    r.strategy.script.setdefault(("before_bar", "*"), []).append(remember)
    px_before = r.price_input_digest  # taken before the frame was handed to Actuator.set_price
    r.go()
    act = r.act
    rewritten = [i for i, d in sorted(rows_when_written.items()) if i < len(act.account_status) and _status_digest(act.account_status[i]) != d]
    px_after = frame_digest(r.price_input)
    obs = {"rows_rewritten": rewritten[:5], "rows_digested": len(rows_when_written), "price_input_changed": px_before != px_after, "error": r.error, "bars": [], "rows": [], "actions": [], "snaps": list(r.strategy.snap_digests), "outcomes": [o[:4] for o in r.outcomes]}
    if r.error is None:
        df = act.account_status_df
        obs["bars"] = list(df.index)
        from mc.worlds.base import cell_repr

        obs["rows"] = [tuple(cell_repr(v) for v in row) for row in df.itertuples(index=False, name=None)]
        obs["columns"] = [str(c) for c in df.columns]
        obs["actions"] = [(a.timestamp, repr(a)) for a in act.actions]
    return obs


def _status_digest(st):
    from mc.worlds.base import cell_repr

    return (str(st.timestamp),) + tuple(cell_repr(v) for v in st.to_array())


def frames_digest(world):
    return {k: frame_digest(v) for k, v in world.frames.items()}


def judge_pair(part, wname, interval, sname, k_raw, vkind):
    case = {"world": wname, "interval": interval, "strategy": sname, "cut_raw_bar": k_raw, "variant": vkind}
    base = make_world(wname)
    raw_index = list(_fresh0(base).index)
    if k_raw >= len(raw_index) - 1:
        return
    cut_ts = raw_index[k_raw]
    try:
        var = make_world(wname, (vkind, cut_ts))
        _fresh0(var)
        px = var.frames["prices"]
        px = px.loc[px.index <= cut_ts]
        bpx = base.frames["prices"]
        bpx = bpx.loc[bpx.index <= cut_ts]
        # an empty price cell that the base history has as well (a token listed later) is part of the history, not a defect of the variant
        if any(((v is None) or (v != v)) and not ((b is None) or (b != b)) for col in px.columns if col in bpx.columns for v, b in zip(px[col], bpx[col])):
            raise ValueError("the variant has no price for a bar of the common prefix")
    except Exception:  # noqa: BLE001  e.g. a one-row history at midnight, for which the price helper yields no rows: not a history to compare
        part.count("variant_not_buildable")
        return
    a = run_once(base, sname, interval)
    b = run_once(var, sname, interval)
    part.count("pairs")
    for run_obs in (a, b):
        if run_obs.get("rows_rewritten"):
            part.violation("C02|history|row-rewritten", "a row of the account history changed after its bar was over (what bars 0..k show depends on later bars)", case,
                           {"rows": run_obs["rows_rewritten"]})
            break
    if a["error"] or b["error"]:
        # a run that fails is judged by the other properties; here both must at least fail alike on the prefix — not comparable, count it
        if a["error"] and not b["error"] or (b["error"] and not a["error"]):
            part.count("one_sided_failures")
            if a["error"]:
                part.violation(f"C02|run|exception|{a['error'].split(':')[0]}", "the base history's backtest raised", case, {"error": a["error"]})
        return
    m = INTERVALS[interval]
    # last resampled bar that lies entirely within the common prefix
    k = (k_raw + 1) // m - 1
    if k < 0:
        part.count("no_common_bar")
        return
    k = min(k, len(a["bars"]) - 1, len(b["bars"]) - 1)
    part.count("prefix_bars_compared", k + 1)
    if a["bars"][:k + 1] != b["bars"][:k + 1]:
        part.violation("C02|prefix|bar-index", "the bar timestamps of the common prefix differ", case, {"a": [str(x) for x in a["bars"][:k + 1]], "b": [str(x) for x in b["bars"][:k + 1]]})
        return
    # a column that only one of the two histories has (a token that enters the wallet after the cut) must be EMPTY on the common prefix of the other one: a
    # column is presentation, what a bar's row says about the bar is the content
    EMPTY = ("nan", "Dnan", "None", "<NA>", "NaT")
    cols = list(dict.fromkeys(list(a.get("columns") or []) + list(b.get("columns") or [])))
    ia = {c: j for j, c in enumerate(a.get("columns") or [])}
    ib = {c: j for j, c in enumerate(b.get("columns") or [])}
    if len(ia) != len(a.get("columns") or []) or len(ib) != len(b.get("columns") or []):
        part.violation("C02|prefix|columns", "the account history has duplicate columns", case)
        return
    for i in range(k + 1):
        ra = {c: (a["rows"][i][ia[c]] if c in ia else "nan") for c in cols}
        rb = {c: (b["rows"][i][ib[c]] if c in ib else "nan") for c in cols}
        diff = [c for c in cols if ra[c] != rb[c] and not (ra[c] in EMPTY and rb[c] in EMPTY)]
        if diff:
            part.violation(f"C02|prefix|history|{vkind}", "account history rows of the common prefix differ between two histories that agree up to the cut", case,
                           {"bar": i, "columns": diff[:6], "a": [ra[c] for c in diff[:3]], "b": [rb[c] for c in diff[:3]]})
            break
    t_k = a["bars"][k].to_pydatetime()
    aa = [x for x in a["actions"] if x[0] <= t_k]
    bb = [x for x in b["actions"] if x[0] <= t_k]
    if aa != bb:
        part.violation(f"C02|prefix|actions|{vkind}", "recorded actions of the common prefix differ", case, {"a": len(aa), "b": len(bb), "first_a": [x[1][:120] for x in aa[:1]]})
    sa = [x for x in a["snaps"] if x[1] <= k]
    sb = [x for x in b["snaps"] if x[1] <= k]
    part.count("snapshots_compared", len(sa))
    if sa != sb:
        bad = next((x for x, y in zip(sa, sb) if x != y), None)
        part.violation(f"C02|prefix|snapshot|{vkind}", "a snapshot handed to the strategy within the common prefix differs (it shows data from beyond the cut)", case,
                       {"first_difference": list(bad[:2]) if bad else None})
    part.sample(case, every=53)


def judge_inputs(part, wname, interval, sname, tz=False):
    case = {"world": wname, "interval": interval, "strategy": sname, "check": "inputs-intact", "tz_aware_index": tz}
    w = make_world(wname, "tz" if tz else None)
    d0 = frames_digest(w)
    a = run_once(w, sname, interval)
    d1 = frames_digest(w)
    part.count("input_runs")
    changed = [k for k in d0 if d0[k] != d1[k]] + (["prices(as handed to set_price)"] if a.get("price_input_changed") else [])
    if changed:
        part.violation(f"C02|inputs|modified|{'+'.join(sorted(c.split('.')[0] for c in changed))}", "a backtest modified the market data / price frames it was given", case, {"frames": changed})
    part.count("history_rows_digested_twice", a.get("rows_digested", 0))
    if a.get("rows_rewritten"):
        part.violation("C02|history|row-rewritten", "a row of the account history changed after its bar was over (what bars 0..k show depends on later bars)", case,
                       {"rows": a["rows_rewritten"]})
    if changed:
        return  # the frames are no longer the inputs that were supplied: nothing to repeat
    try:
        # a run leaves no trace in the PROCESS either: between the two identical runs the same world is run once at a coarser interval
        other = "10min" if interval == "1min" and len(a["bars"]) <= 30 else None
        if other and not tz:
            INTERVALS.setdefault(other, 10)
            run_once(w, sname, other)
        b = run_once(w, sname, interval)  # fresh Actuator, Broker and market objects on the SAME frames
    except Exception as e:  # noqa: BLE001
        part.violation("C02|inputs|rerun-raised", "repeating the backtest on the same inputs could not even be set up", case, {"error": repr(e)[:200]})
        return
    if a["error"] != b["error"] or a["rows"] != b["rows"] or a["actions"] != b["actions"] or [str(x) for x in a["bars"]] != [str(x) for x in b["bars"]]:
        first = next((i for i, (x, y) in enumerate(zip(a["rows"], b["rows"])) if x != y), None)
        part.violation("C02|inputs|rerun-differs", "repeating the backtest on the same inputs with a fresh account does not reproduce the result", case,
                       {"first_bar": first, "errors": [a["error"], b["error"]]})


_LOADER_SEQ = itertools.count(1)


def judge_loader(part, holes, cut, vkind):
    """The history as the downloader writes it: minute FILES without a row for minutes in which nothing happened (possibly a blank first minute). Two file sets that agree
    up to the cut and differ afterwards are read by the repository's loader (re-index to the minute grid, fill holes, statistic columns): the prepared rows up to
    the cut are identical, the files are not touched, and reading the same files again gives the same frame."""
    import datetime
    import hashlib
    import os
    import shutil
    import tempfile

    import demeter.data.data_cache as dc
    from demeter import MarketInfo
    from demeter.uniswap import UniLpMarket
    from mc.worlds import uni

    case = {"check": "loader", "holes": list(holes), "cut_minute": cut, "variant": vkind}
    n = 16
    pool = uni.pool_q0()
    closes = [200000 + 13 * ((7 * i) % 11) - 40 for i in range(n)]
    in0 = [10**9 * (i + 1) for i in range(n)]
    in1 = [10**17 * (n - i) for i in range(n)]
    base = uni.raw_frame(closes, in0, in1, [4 * 10**16 + i for i in range(n)], open_tick=closes[0])
    var = base.copy()
    fut = var.index > var.index[cut]
    if vkind == "shock":
        var.loc[fut, "closeTick"] = var.loc[fut, "closeTick"] + 700
        var.loc[fut, "inAmount0"] = [v * 3 for v in var.loc[fut, "inAmount0"]]
        var.loc[fut, "inAmount1"] = [v * 5 for v in var.loc[fut, "inAmount1"]]
        var.loc[fut, "currentLiquidity"] = [v * 2 for v in var.loc[fut, "currentLiquidity"]]
    elif vkind == "truncate":
        var = var.loc[~fut]
    d = tempfile.mkdtemp(prefix="c02-loader-")
    try:
        dc.CACHE_PATH = os.path.join(d, "cache")  # harness process only (the loader's feather cache is ~/.demeter otherwise)
        dc.CACHE_CONFIG_PATH = os.path.join(dc.CACHE_PATH, "config.pkl")
        day = base.index[0].date()
        loaded, digests = [], []
        for frame in (base, var, base):
            addr = "0x" + format(next(_LOADER_SEQ), "x")
            rows = frame.drop(index=[base.index[h] for h in holes if base.index[h] in frame.index]).copy()
            for col in rows.columns:
                rows[col] = [int(v) for v in rows[col]]
            rows.insert(0, "timestamp", rows.index)
            path = os.path.join(d, f"ethereum-{addr}-{day.strftime('%Y-%m-%d')}.minute.csv")
            rows.to_csv(path, index=False)
            h0 = hashlib.sha1(open(path, "rb").read()).hexdigest()
            m = UniLpMarket(MarketInfo("uni"), pool, data_path=d)
            m.load_data("ethereum", addr, day, day)
            digests.append(h0 == hashlib.sha1(open(path, "rb").read()).hexdigest())
            loaded.append(m.data)
    except Exception as e:  # noqa: BLE001
        part.violation(f"C02|loader|exception|{type(e).__name__}", "the repository's loader raised on minute files with holes", case, {"error": repr(e)[:200]})
        return
    finally:
        shutil.rmtree(d, ignore_errors=True)
    part.count("loader_pairs")
    if not all(digests):
        part.violation("C02|loader|files-modified", "loading modified the minute files", case)
    from mc.worlds.base import cell_repr

    def rows_upto(df, k):
        return [(str(ts),) + tuple(cell_repr(v) for v in row) for ts, row in zip(df.index[:k + 1], df.iloc[:k + 1].itertuples(index=False, name=None))]
    a, b, a2 = (rows_upto(x, cut) for x in loaded)
    if a != a2:
        part.violation("C02|loader|reload-differs", "loading the same files twice gives different frames", case)
    first_real = min(i for i in range(n) if i not in holes)
    if cut < first_real:
        return  # a blank head is filled from the first row there is: with the cut inside the blank head the two histories do not agree on any bar
    part.count("prefix_bars_compared", cut + 1)
    if a != b:
        i = next(i for i, (x, y) in enumerate(zip(a, b)) if x != y)
        cols = [str(c) for c, x, y in zip(["timestamp"] + list(loaded[0].columns), a[i], b[i]) if x != y]
        part.violation(f"C02|loader|prefix|{vkind}", "the prepared history of the minutes up to the cut differs between two file sets that agree up to the cut (a hole was filled "
                       "from LATER rows)", case, {"minute": i, "columns": cols[:6]})


def work(args):
    seed, items = args
    part = Part(seed)
    for it in items:
        if it[0] == "pair":
            judge_pair(part, *it[1:])
        elif it[0] == "loader":
            judge_loader(part, *it[1:])
        else:
            judge_inputs(part, *it[1:])
    return part.result()


def all_items(run):
    strategies = ["idle", "seeded", "every-bar", "data-dependent"]
    variants = ["shock", "reverse", "truncate"]
    items = []
    for wname in world_makers():
        n = len(_fresh0(make_world(wname)).index)
        heavy = n > 30
        intervals = ["1min"] if heavy and not run.thorough else ["1min", "2min", "5min"]
        if wname == "deribit":
            intervals = ["1min"]  # hourly bars: the interval setting only adds empty sub-hour bars
        for interval in intervals:
            m = INTERVALS[interval]
            cuts = list(range(n - 1)) if not heavy else ([0, 29, 59, 60] if not run.thorough else [0, 1, 29, 30, 58, 59, 60])
            if wname == "deribit(gap)+uni":
                cuts = [59, 75] if not run.thorough else [30, 59, 60, 75, 119]
            if interval != "1min":
                cuts = [c for c in cuts if (c + 1) % m == 0] or cuts[:1]
            for sname in strategies if not heavy else ["every-bar", "data-dependent"]:
                items.append(("inputs", wname, interval, sname))
                if wname in ("uni(q0)", "gmx1") and interval == "1min" and sname in ("seeded", "every-bar"):
                    items.append(("inputs", wname, interval, sname, True))  # the supplied frames carry a time-zone-aware index
                for k in cuts:
                    for v in variants:
                        items.append(("pair", wname, interval, sname, k, v))
    for holes in ((), (0,), (0, 1, 5, 6, 11), (3, 4, 9), (0, 2, 4, 6, 8, 10, 12, 14)):
        for cut in (2, 4, 7, 10, 13):
            for v in ("shock", "truncate"):
                items.append(("loader", holes, cut, v))
    return items


def main(run: Run):
    items = run.rotate(all_items(run))
    heavy = [i for i in items if i[0] != "loader" and i[1] in ("deribit+uni", "deribit(gap)+uni")]
    light = [i for i in items if i[0] == "loader" or i[1] not in ("deribit+uni", "deribit(gap)+uni")]
    jobs = [(run.seed, ch) for ch in chunks(light, 64)] + [(run.seed, ch) for ch in chunks(heavy, 16)]
    for r in pmap(work, jobs):
        run.merge(r)
    c = run.counters
    cov = {
        "states": c.get("prefix_bars_compared", 0), "transitions": c.get("pairs", 0) * 2 + c.get("input_runs", 0) * 2,
        "traces_validated_against_impl": c.get("pairs", 0) * 2 + c.get("input_runs", 0) * 2, "evaluations": c.get("prefix_bars_compared", 0) + c.get("snapshots_compared", 0),
        "distinct_nontrivial": c.get("pairs", 0),
        "rule": f"{len(world_makers())} worlds x intervals x strategies (seeded portfolio, trading every bar, data-dependent" + (", idle" if run.thorough else "")
                + ") x every cut k x future variants {shock, reversed, truncated}; plus an inputs-intact / re-run check per world x interval x strategy",
        "pairs": c.get("pairs", 0), "input_runs": c.get("input_runs", 0), "snapshots_compared": c.get("snapshots_compared", 0),
        "exhaustive": True, "completed_bound": {"items": len(items)},
    }
    return run.finish(cov, ["two histories 'agree on bars 0..k' when their RAW rows up to the cut are identical; with a resampled interval the compared prefix is the resampled "
                            "bars lying entirely before the cut", "snapshots are digested at hand-over (Snapshot.market_status is a class-level shared dict)",
                            "a strategy may react to what a snapshot shows; identical snapshots on the prefix imply identical decisions on the prefix"])


def replay(run: Run, path):
    data = json.load(open(path))
    case = data["case"]
    part = Part()
    if case.get("check") == "loader":
        judge_loader(part, tuple(case["holes"]), case["cut_minute"], case["variant"])
    elif case.get("check") == "inputs-intact":
        judge_inputs(part, case["world"], case["interval"], case["strategy"])
    else:
        judge_pair(part, case["world"], case["interval"], case["strategy"], case["cut_raw_bar"], case["variant"])
    for sig, v in part.violations.items():
        print("reproduced:", sig, v[0], v[2])
    print("REPLAY", "violations" if part.violations else "clean")
    return 1 if part.violations else 0
