"""C05 — each bar runs once, in order, with a fixed phase order; logs align with bars.

Trace conformance through the REAL Actuator.run: the harness wraps (on instances) every market's set_market_status and
update and uses a tracing strategy, producing one global trace of phases with the action-log and account-history
lengths at every event.  The trace must be the one the loop specification generates for the run's bar index: per bar,
once, ascending: status(all markets) -> before_bar -> fired triggers -> on_bar -> an optional second status refresh per market,
then update(all) -> after_bar -> one history row -> notify of exactly this bar's actions, each once.
Explored: market mixes x bar intervals (1min / 2min / 5min / 1h, resampling through the markets' own _resample) x a
scripted operation (accepted or rejected) in every hook (initialize, before_bar, trigger, on_bar, after_bar) of every
placement bar; thorough: two operations."""
from __future__ import annotations

import itertools
import json
from datetime import timedelta

from mc.engine.core import Part, Run, chunks, pmap
from mc.worlds import kit

LEVEL = "model_checking"
INTERVALS = {"1min": 1, "2min": 2, "5min": 5, "1h": 60}
MIXES = ["uni(q0)", "uni+aave", "aave(path)", "squeeth(ne)", "gmx1", "gmx2(mild,small)", "deribit", "deribit(cut)", "deribit+uni", "deribit(many)+uni"]
HOOKS = ["initialize", "before_bar", "trigger", "on_bar", "after_bar"]  # plus "notify" in dedicated two-operation scripts


def get_world(name):
    from mc.worlds import registry

    return (registry.WORLDS.get(name) or registry.PATH_WORLDS[name])()


def expected_bars(raw_index, minutes):
    """Bars of the resampled index: the interval grid anchored at the start of the day, from the bucket of the first raw timestamp to the bucket of
    the last one, every grid point once, ascending (a grid finer than the data has bars between the data's rows)."""
    def bucket(ts):
        day = ts.normalize()
        return day + timedelta(minutes=minutes) * int((ts - day) / timedelta(minutes=minutes))
    if minutes == 1:
        return list(raw_index)
    first, last = bucket(raw_index[0]), bucket(raw_index[-1])
    out = []
    b = first
    while b <= last:
        out.append(b)
        b = b + timedelta(minutes=minutes)
    return out


def holdings(adapter):
    r = dict(adapter.raw())
    r.pop("book", None)  # the visible order book is market data, a refresh replaces it by design
    return r


def run_traced(world, script, interval):
    """script: list of (bar, hook, label). Returns dict of observations."""
    from demeter import Actuator, Strategy
    from demeter.strategy.trigger import AtTimeTrigger
    from mc.worlds import catalog
    from mc.worlds.base import make_actuator, run_quiet

    catalog.AUTO_BEGIN[0] = False
    try:
        ctx = world.build()
    finally:
        catalog.AUTO_BEGIN[0] = True
    quote = ctx.broker.quote_token
    assets = [(k, v.balance) for k, v in ctx.broker.assets.items()]
    raw_index = list(ctx.index)
    bars = expected_bars(raw_index, INTERVALS[interval])
    ctx.index = bars_index = __import__("pandas").DatetimeIndex(bars)
    trace = []
    outcomes = []
    fired_in_notify = set()
    state = {"act": None}

    def ev(kind, *info):
        act = state["act"]
        trace.append((kind,) + info + (len(act.actions), len(act.account_status)))

    def do_ops(slot_hook, bar, snapshot):
        for b, hook, label in script:
            if hook != slot_hook or b != bar:
                continue
            ctx.bar = max(bar, 0)
            ctx.__dict__.pop("_row_cache", None)
            ops = {o.label: o for o in world.alphabet(ctx)}
            if label not in ops:
                outcomes.append((b, hook, label, "not-enabled"))
                continue
            n0 = len(state["act"].actions)
            out = kit.apply(ctx, ops[label])
            outcomes.append((b, hook, label, "ok" if out.ok else "rejected", n0, len(state["act"].actions), out.error))

    class Tracer(Strategy):
        def initialize(self):
            ev("initialize")
            do_ops("initialize", -1, None)
            for b, hook, label in script:
                if hook == "trigger" and 0 <= b < len(bars):
                    def fire(snapshot, b=b):
                        ev("trigger", snapshot.row_id, snapshot.timestamp)
                        do_ops("trigger", b, snapshot)
                    self.triggers.append(AtTimeTrigger(bars[b].to_pydatetime(), fire))

        def before_bar(self, snapshot):
            ev("before_bar", snapshot.row_id, snapshot.timestamp)
            do_ops("before_bar", snapshot.row_id, snapshot)

        def on_bar(self, snapshot):
            ev("on_bar", snapshot.row_id, snapshot.timestamp)
            do_ops("on_bar", snapshot.row_id, snapshot)

        def after_bar(self, snapshot):
            ev("after_bar", snapshot.row_id, snapshot.timestamp)
            do_ops("after_bar", snapshot.row_id, snapshot)

        def notify(self, action):
            ev("notify", id(action), action.timestamp)
            # a strategy may operate from inside its notification hook (e.g. re-buy when told about a sale): scripted once per placement
            for b, hook, label in script:
                if hook == "notify" and 0 <= b < len(bars) and action.timestamp == bars[b].to_pydatetime() and (b, label) not in fired_in_notify:
                    fired_in_notify.add((b, label))
                    do_ops("notify", b, None)

        def finalize(self):
            ev("finalize")
            do_ops("finalize", -2, None)  # an operation made when the run is over (closing out, say): recorded, but outside every bar

    st = Tracer()
    px = world.frames["prices"]
    px = px.drop(columns=["USD"]) if "USD" in px.columns else px
    if any(hook == "pricehole" for _, hook, _ in script):
        # the price table of an external feed carries a column the account never touches, with holes (a token listed later): the bars are bars all the same
        px = px.copy()
        px["LATE"] = [float("nan") if i % 3 != 2 else 1.0 + i / 100 for i in range(len(px.index))]
    markets = [a.market for a in ctx.adapters]
    full_data = None
    if any(hook == "rerun-extended" for _, hook, _ in script):
        # walk-forward: the first run sees the first two rows only, then the history is extended and the SAME actuator runs again
        full_data = [m.data for m in markets]
        for m in markets:
            m.data = m.data.iloc[:2]
    act = make_actuator(markets, assets, st, px, quote, interval=interval)
    state["act"] = act
    ctx.broker = act.broker
    # instance-level wrappers on the real markets
    for m in markets:
        name = m.market_info.name

        def wrap_status(real, name=name, m=m):
            def f(data, price):
                pending = m.has_update
                before = [holdings(a) for a in ctx.adapters if a.market is m]
                r = real(data, price)
                after = [holdings(a) for a in ctx.adapters if a.market is m]
                ev("status", name, data.timestamp, pending, before == after)
                return r
            return f

        def wrap_update(real, name=name, m=m):
            def f():
                ev("update", name, m.market_status.timestamp, {x.market_info.name: x.has_update for x in markets})
                return real()
            return f
        m.set_market_status = wrap_status(m.set_market_status)
        m.update = wrap_update(m.update)
    error = None
    try:
        run_quiet(act)
        if full_data is not None:
            for m, d in zip(markets, full_data):
                m.data = d
        if any(hook in ("rerun", "rerun-extended") for _, hook, _ in script):
            # the SAME actuator is run once more (walk-forward testing in chunks): the second run is a run like any other, judged by the same specification
            trace.clear()
            outcomes.clear()
            fired_in_notify.clear()
            run_quiet(act)
    except Exception as e:  # noqa: BLE001
        error = f"{type(e).__name__}: {e}"[:300]
    return {"trace": trace, "outcomes": outcomes, "error": error, "bars": bars, "act": act, "markets": [m.market_info.name for m in markets], "prices": px}


def judge(part, mix, interval, script):
    world = get_world(mix)
    case = {"mix": mix, "interval": interval, "script": [list(s) for s in script]}
    o = run_traced(world, script, interval)
    part.count("runs")
    if o.get("act") is not None:
        FINISHED.append((case, o["trace"], len(o["trace"]), o["act"], len(o["act"].actions), len(o["act"].account_status)))
    if o["error"]:
        part.violation(f"C05|run|exception|{o['error'].split(':')[0]}|{interval if interval != '1min' else 'base'}", "the backtest raised", case,
                       {"error": o["error"], "outcomes": [x[:4] for x in o["outcomes"]]})
        return
    bars, trace, names, act = o["bars"], o["trace"], o["markets"], o["act"]
    part.count("bars", len(bars))
    pos = 0

    def bad(sig, what, detail=None):
        part.violation(f"C05|{sig}", what, case, detail)

    def nxt():
        nonlocal pos
        e = trace[pos] if pos < len(trace) else ("<end>",)
        pos += 1
        return e

    def peek():
        return trace[pos] if pos < len(trace) else ("<end>",)

    # ---- the first status refresh and initialize come before the loop --------------------------------------------------------------
    # (positioning the markets on the first bar before initialize is how the loop lets initialize() see data; the property does not demand it,
    #  so it is accepted, not required)
    pre = []
    while peek()[0] == "status":
        e = nxt()
        if e[2] != bars[0] or e[1] in pre:
            return bad("order|pre-loop-status", "before initialize a market was positioned on another bar than the first, or twice", {"event": str(e[:3])})
        pre.append(e[1])
    if nxt()[0] != "initialize":
        return bad("order|initialize", "initialize is not the first strategy hook")
    acts_seen = 0
    rows_seen = 0
    recorded_in_bar = {}
    fired = {(b, lab) for b, hook, lab in script if hook == "trigger"}
    trig_bars = sorted({b for b, hook, lab in script if hook == "trigger" and 0 <= b < len(bars)})
    n_init_actions = None
    for i, ts in enumerate(bars):
        t = ts.to_pydatetime()
        first_action_index = None
        # 1. status(all)
        for nm in names:
            e = nxt()
            if e[0] != "status" or e[1] != nm or e[2] != ts:
                return bad("order|status", "a bar does not start with one status refresh of every market (in broker order) at the bar's timestamp",
                           {"bar": i, "expected": ["status", nm, str(ts)], "event": str(e[:3])})
            if not e[4]:
                return bad("status-changed-positions", "a market status refresh changed positions (accrual belongs to update())", {"bar": i, "market": nm})
            if i == 0 and n_init_actions is None:
                n_init_actions = e[-2]
        start_actions = trace[pos - 1][-2]
        # 2. before_bar
        e = nxt()
        if e[0] != "before_bar" or e[1] != i or e[2] != t:
            return bad("order|before_bar", "before_bar is not the first hook of the bar / wrong bar number or timestamp", {"bar": i, "event": str(e[:3])})
        # 3. triggers of this bar, in registration order
        n_trig = sum(1 for b in [b for b, hook, lab in script if hook == "trigger"] if b == i)
        for _ in range(n_trig):
            e = nxt()
            if e[0] != "trigger" or e[1] != i:
                return bad("order|trigger", "a due trigger did not fire between before_bar and on_bar", {"bar": i, "event": str(e[:3])})
        if peek()[0] == "trigger":
            return bad("order|trigger-extra", "a trigger fired on a bar it is not due on", {"bar": i})
        # 5. on_bar
        e = nxt()
        if e[0] != "on_bar" or e[1] != i or e[2] != t:
            return bad("order|on_bar", "on_bar does not follow before_bar / triggers", {"bar": i, "event": str(e[:3])})
        # 6. second status: only markets with a pending write, each at most once, in order; no pending write may be left at update time
        refreshed = []
        while peek()[0] == "status":
            e = nxt()
            if e[2] != ts or e[1] in refreshed:
                return bad("order|second-status", "a market was refreshed more than twice in a bar or at another timestamp", {"bar": i, "event": str(e[:3])})
            if not e[3]:
                part.count("second_status_without_pending_write")  # harmless for this property (the refresh is idempotent); C08 judges its effect on fees
            if not e[4]:
                return bad("status-changed-positions", "a market status refresh changed positions (accrual belongs to update())", {"bar": i, "market": e[1]})
            refreshed.append(e[1])
        # 7. update(all) once each, in order
        for k, nm in enumerate(names):
            e = nxt()
            if e[0] != "update" or e[1] != nm:
                return bad("order|update", "the market update does not follow on_bar for every market once, in order", {"bar": i, "event": str(e[:3])})
            if k == 0 and any(e[3].values()):
                # the market update of a bar sees what the strategy did in the bar: every market that was written to has been refreshed before the first
                # update() (the direct driver of the other checks relies on exactly this call sequence, DESIGN section 4)
                return bad("order|write-not-refreshed-before-update", "a market that was written to in the bar was not refreshed before the market update ran",
                           {"bar": i, "pending": {kk: vv for kk, vv in e[3].items() if vv}})
        # 8. after_bar
        e = nxt()
        if e[0] != "after_bar" or e[1] != i or e[2] != t:
            return bad("order|after_bar", "after_bar does not follow the market update", {"bar": i, "event": str(e[:3])})
        if e[-1] not in (i, i + 1):  # the bar's own row may be written before or after after_bar; earlier bars must each have exactly one
            return bad("history|row-timing", "the account history does not hold one row per finished bar", {"bar": i, "rows": e[-1]})
        # 10. notify: exactly the actions recorded since the previous bar's notifications (initialize's on bar 0), in order, once
        due = act.actions[acts_seen:]
        upto = None
        k = 0
        while peek()[0] == "notify":
            e = nxt()
            if e[-1] not in (i, i + 1):
                return bad("history|row-timing", "the account history does not hold one row per finished bar", {"bar": i, "rows": e[-1]})
            if upto is None:
                upto = e[-2]
            if k >= len(due) or id(due[k]) != e[1]:
                return bad("notify|wrong-action", "an action was notified out of order, twice, or in another bar than it ran in", {"bar": i, "k": k})
            k += 1
        n_bar_actions = (trace[pos - 1][-2] if pos > 0 else 0) - acts_seen
        n_bar_actions = len([a for a in act.actions[acts_seen:] if a.timestamp == t])
        # actions of this bar = all recorded up to now (nothing can be recorded during notify)
        # every action recorded up to the end of the bar belongs to it (an operation made inside notify() is recorded after that notify event began,
        # so the count is taken from the next event — nothing can be recorded between the end of the notifications and the next bar's first event)
        now_actions = peek()[-2] if peek()[0] != "<end>" else len(act.actions)
        if k != now_actions - acts_seen:
            return bad("notify|missed", "an accepted operation's action was not delivered to notify at the end of its bar", {"bar": i, "delivered": k,
                                                                                                                   "recorded": now_actions - acts_seen})
        for a in act.actions[acts_seen:now_actions]:
            if a.timestamp != t:
                return bad("action|timestamp", "an action record is not stamped with the bar in which it ran", {"bar": i, "stamp": str(a.timestamp), "bar_time": str(t)})
        acts_seen = now_actions
    e = nxt()
    if e[0] != "finalize":
        return bad("order|end", "the loop visited more events than the bar index allows (a bar ran twice?) or finalize is missing", {"event": str(e[:3])})
    if pos != len(trace):
        return bad("order|after-finalize", "events after finalize")
    # ---- scripted operations: accepted ones produced their actions in their bar ----------------------------------------------------------
    for oc in o["outcomes"]:
        part.count(f"op.{oc[3]}")
    accepted_in_bar = {}
    for oc in o["outcomes"]:
        if oc[3] == "ok" and oc[1] != "finalize":  # what is done in finalize() lies outside every bar
            b = 0 if oc[1] == "initialize" or oc[0] < 0 else oc[0]
            accepted_in_bar[b] = accepted_in_bar.get(b, 0) + 1
    for b, n_ok in accepted_in_bar.items():
        if b < len(bars):
            stamped = sum(1 for a in act.actions if a.timestamp == bars[b].to_pydatetime())
            if stamped < n_ok:
                return bad("action|missing", "an accepted operation left no action record stamped with its bar", {"bar": b, "accepted_operations": n_ok, "records": stamped})
    # ---- account history ------------------------------------------------------------------------------------------------------------------
    df = act.account_status_df
    part.count("history_checks")
    if list(df.index) != list(bars):
        return bad(f"history|index|{interval if interval != '1min' else 'base'}", "the account history does not have exactly one row per bar carrying the bar's timestamp",
                   {"rows": len(df.index), "bars": len(bars), "first": str(df.index[0]) if len(df.index) else None})
    if [s.timestamp for s in act.account_status] != [b.to_pydatetime() for b in bars]:
        return bad("history|status-timestamps", "account status entries do not carry the bars' timestamps")
    px = act.token_prices
    for col in px.columns:
        if col == "USD":
            continue
        key = ("price", col)
        if key not in df.columns:
            return bad("history|price-column-missing", "the account history lacks a token price column", {"token": col})
        for b in bars:
            if str(df.loc[b, key]) != str(px.loc[b, col]):
                return bad("history|price", "the account history row does not carry that bar's token price", {"bar": str(b), "token": col,
                                                                                                             "row": str(df.loc[b, key]), "price": str(px.loc[b, col])})
    part.sample({"mix": mix, "interval": interval, "script": [list(s) for s in script], "events": len(trace)}, every=97)


PER_MARKET = {}


def default_labels(world):
    from mc.worlds import catalog

    catalog.AUTO_BEGIN[0] = False
    try:
        ctx = world.build()
    finally:
        catalog.AUTO_BEGIN[0] = True
    ctx.begin_bar(0)
    ops = world.alphabet(ctx)
    good = [o.label for o in ops if not o.deviation][:2]
    badl = [o.label for o in ops if o.deviation and ("over" in o.label or "unknown" in o.label or "NOPE" in o.label)][:1]
    # per market: its first default operation and its first to-be-refused one (for the refused-then-accepted scripts)
    PER_MARKET.clear()
    for o in ops:
        mk = o.label.split(".")[0]
        g, b = PER_MARKET.setdefault(mk, [None, None])
        if not o.deviation and g is None:
            PER_MARKET[mk][0] = o.label
        if o.deviation and b is None and any(t in o.label for t in ("over", "unknown", "NOPE", "beyond")):
            PER_MARKET[mk][1] = o.label
    return good, badl


def cases(thorough):
    out = []
    for mix in MIXES:
        world = get_world(mix)
        good, badl = default_labels(world)
        n_raw = len(world.build().index)
        for interval, mins in INTERVALS.items():
            if mins == 60 and n_raw < 60:
                continue
            if mins in (2, 5) and n_raw > 60 and not thorough:
                continue
            n_bars = len(expected_bars(list(world.build().index), mins))
            placements = sorted({0, 1, n_bars - 1} & set(range(n_bars)))
            out.append((mix, interval, []))
            singles = []
            for lab in good + badl:
                for hook in HOOKS:
                    for b in ([-1] if hook == "initialize" else placements):
                        if n_raw > 60 and hook != "initialize" and b not in (0, n_bars - 1) and interval == "1min" and not thorough:
                            continue
                        singles.append((b, hook, lab))
            for s in singles:
                out.append((mix, interval, [s]))
            if thorough:
                for s1, s2 in itertools.combinations(singles[:: 2], 2):
                    if n_raw <= 60:
                        out.append((mix, interval, [s1, s2]))
            if mix == "deribit+uni" and interval == "1min":
                # cash moves into / out of the option account on bars where the hourly market is closed: accepted operations like any other (recorded,
                # stamped, notified in that bar)
                for hook in ("on_bar", "after_bar", "trigger"):
                    out.append((mix, interval, [(1, hook, "deribit.deposit[part]")]))
                out.append((mix, interval, [(0, "on_bar", "deribit.deposit[part]"), (31, "on_bar", "deribit.withdraw[part]")]))
            if mix == "uni+aave":
                # a write in the market registered LAST while the first one is left alone
                for hook in ("on_bar", "before_bar"):
                    out.append((mix, interval, [(min(1, n_bars - 1), hook, "aave.supply[WETH,part,C]")]))
            if n_raw <= 60:
                out.append((mix, interval, [(-3, "pricehole", "-")]))
                out.append((mix, interval, [(-3, "pricehole", "-"), (min(1, n_bars - 1), "on_bar", good[0])]))
            if mix in ("uni(q0)", "gmx1", "aave(path)") and interval == "1min":
                out.append((mix, interval, [(-2, "rerun-extended", "-")]))
                out.append((mix, interval, [(n_bars - 1, "on_bar", good[0]), (-2, "rerun-extended", "-")]))
            if n_raw <= 60 and interval == "1min":
                out.append((mix, interval, [(-2, "finalize", good[0]), (-2, "rerun", "-")]))
                out.append((mix, interval, [(0, "on_bar", good[0]), (-2, "finalize", good[-1]), (-2, "rerun", "-")]))
            out.append((mix, interval, [(min(1, n_bars - 1), "on_bar", good[0]), (min(1, n_bars - 1), "notify", good[-1])]))
            out.append((mix, interval, [(0, "after_bar", good[0]), (0, "notify", good[0])]))
            for mk, (g1, b1) in sorted(PER_MARKET.items()):
                if g1 is None or b1 is None or mk == "wallet":
                    continue
                # a refused operation of a market, then an accepted one of the same market (same bar / next bar / from initialize): the second one is
                # recorded, stamped and notified like any other
                out.append((mix, interval, [(0, "on_bar", b1), (0, "after_bar", g1)]))
                out.append((mix, interval, [(0, "on_bar", b1), (min(1, n_bars - 1), "on_bar", g1)]))
                out.append((mix, interval, [(-1, "initialize", b1), (0, "before_bar", g1)]))
            if not thorough:
                g = good[0]
                for h1, h2 in (("on_bar", "on_bar"), ("after_bar", "before_bar"), ("trigger", "after_bar"), ("initialize", "on_bar"), ("trigger", "trigger")):
                    b1 = -1 if h1 == "initialize" else 0
                    out.append((mix, interval, [(b1, h1, g), (min(1, n_bars - 1), h2, good[-1])]))
    return out


FINISHED = []  # (case, trace, len(trace), actuator, len(actions), len(account_status)) of the runs this worker process has finished


def work(args):
    seed, items = args
    part = Part(seed)
    for mix, interval, script in items:
        judge(part, mix, interval, [tuple(s) for s in script])
        # a finished run stays finished: nothing a LATER run does (with its own strategy, actuator and markets) may fire hooks of an earlier strategy or
        # add to an earlier run's logs (every hook invocation and every recorded action of a run is an event of THAT run's bars)
        for case, trace, n_trace, act, n_act, n_rows in FINISHED:
            part.count("finished_runs_rechecked")
            if len(trace) != n_trace or len(act.actions) != n_act or len(act.account_status) != n_rows:
                part.violation("C05|finished-run-changed", "hooks of an already finished run were invoked (or its logs grew) while a later, unrelated run was executing", case,
                               {"later_run": {"mix": mix, "interval": interval, "script": [list(x) for x in script]}, "extra_events": [str(e[:3]) for e in trace[n_trace:n_trace + 4]],
                                "actions_before_after": [n_act, len(act.actions)]})
        del FINISHED[:-3]
    return part.result()


def main(run: Run):
    cs = run.rotate(cases(run.thorough))
    heavy = [c for c in cs if c[0] in ("deribit+uni", "deribit(many)+uni")]
    light = [c for c in cs if c[0] not in ("deribit+uni", "deribit(many)+uni")]
    jobs = [(run.seed, ch) for ch in chunks(light, 48)] + [(run.seed, [c]) for c in heavy]
    for r in pmap(work, jobs):
        run.merge(r)
    c = run.counters
    cov = {
        "states": c.get("bars", 0), "transitions": c.get("bars", 0) * 8, "traces_validated_against_impl": c.get("runs", 0),
        "evaluations": c.get("runs", 0) + c.get("history_checks", 0), "distinct_nontrivial": c.get("runs", 0),
        "rule": f"market mixes {MIXES} x intervals {list(INTERVALS)} (1h only where the data spans hours) x one scripted operation (2 accepted, 1 rejected) in each of "
                f"{HOOKS} at bars {{0, 1, last}}" + (" x all pairs of such placements" if run.thorough else " plus five two-operation placements")
                + "; every run's full phase trace is matched against the loop specification",
        "accepted_ops": c.get("op.ok", 0), "rejected_ops": c.get("op.rejected", 0),
        "exhaustive": True, "completed_bound": {"cases": len(cs), "operations_per_run": 2 if run.thorough else 1},
    }
    return run.finish(cov, ["bar index = raw timestamps floored to the interval grid anchored at the start of the day (computed arithmetically, not by pandas resample)",
                            "a second status refresh between on_bar and update() is allowed for any market at most once; whether it happens exactly for markets with a pending write is counted, "
                            "not judged (its observable consequence, the fee share of liquidity added in the bar, is C08's subject)",
                            "actions made in finalize() are outside the bars and not judged"])


def replay(run: Run, path):
    data = json.load(open(path))
    case = data["case"]
    part = Part()
    judge(part, case["mix"], case["interval"], [tuple(s) for s in case["script"]])
    for sig, v in part.violations.items():
        print("reproduced:", sig, v[0], v[2])
    print("REPLAY", "violations" if part.violations else "clean")
    return 1 if part.violations else 0
