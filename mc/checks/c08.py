"""C08 — per-bar LP fee = volume x fee rate x in-range path fraction x liquidity share.

Actuator driver: every tick path over a 9-value alphabet placed relative to the position's range
(all (previous close, close) pairs incl. stationary, boundary-to-boundary and full-range jumps) x
same-bar operations x pool liquidity x tick dtype; the pending-fee delta is measured across the real
market.update() call and compared with an exact interval-intersection reference.
"""
from __future__ import annotations

import itertools
import json
from decimal import Decimal
from fractions import Fraction

from mc.engine.core import Part, Run, chunks, pmap

LEVEL = "model_checking"

L, U, S = 200000, 200100, 10  # position range and tick spacing (fee 0.05%)
TICKS = [L - 2 * S, L - 1, L, L + 1, (L + U) // 2, U - 1, U, U + 1, U + 2 * S]
FAR = (L + 5000, L + 5100)  # a far out-of-range second range
OVER = (L + 50, U + 200)  # a second, overlapping range
V0, V1 = 7 * 10**9, 3 * 10**18  # raw in-amounts (token0 = USDC 6 dec, token1 = WETH 18 dec)
POOLS = {"small": 3 * 10**15, "large": 10**22}
OPS = ["none", "swap", "add_far", "add_same", "remove_part", "collect", "add_remove", "add_over", "transfer_out", "transfer_out_in", "add_same_then_rejected",
       "rejected_then_add_same", "remove_part_then_rejected", "empty_nocollect_add_over", "add_over_empty_over_nocollect"]
# a second grid centred on tick 0 (a stable / stable pool with equal decimals, fee 0.01 %, spacing 1): the previous close can be exactly 0
ZL, ZU = -20, 20
ZTICKS = [ZL - 2, ZL - 1, ZL, ZL + 1, 0, ZU - 1, ZU, ZU + 1, ZU + 30]
GRIDS = {"std": (L, U, TICKS), "zero": (ZL, ZU, ZTICKS)}
HOOKS = ["on_bar", "before_bar", "trigger", "after_prev"]
REL = Fraction(1, 10**28)


def weight(a, b, lo, hi) -> Fraction:
    """Fraction of the tick path [a,b] inside [lo,hi]; a==b: 1 iff lo <= a < hi (active-liquidity convention)."""
    if a == b:
        return Fraction(1 if lo <= a < hi else 0)
    x, y = min(a, b), max(a, b)
    inter = max(0, min(y, hi) - max(x, lo))
    return Fraction(inter, y - x)


def do_op(name, grid="std"):
    from demeter.uniswap import PositionInfo

    L, U, _ = GRIDS[grid]
    FAR = (L + 5000, L + 5100)
    OVER = (L + (50 if grid == "std" else 5), U + 200)
    main = PositionInfo(L, U)

    def f(strategy, snapshot):
        m = next(mk for mk in strategy.broker.markets.values() if mk.market_info.name == "uni")
        if name == "swap":
            m.buy(Decimal("0.01"))
        elif name == "add_far":
            m.add_liquidity_by_tick(FAR[0], FAR[1], Decimal("0.5"), Decimal(500))
        elif name == "add_over":
            m.add_liquidity_by_tick(OVER[0], OVER[1], Decimal("0.5"), Decimal(500))
        elif name == "add_same":
            m.add_liquidity_by_tick(L, U, Decimal("0.3"), Decimal(300))
        elif name == "remove_part":
            m.remove_liquidity(main, liquidity=m.positions[main].liquidity // 3, collect=False)
        elif name == "collect":
            m.collect_fee(main)
        elif name == "add_remove":
            m.add_liquidity_by_tick(L, U, Decimal("0.3"), Decimal(300))
            m.remove_liquidity(main, liquidity=m.positions[main].liquidity // 4, collect=True, remove_dry_pool=False)
        elif name == "transfer_out":  # the position is lent out (e.g. as vault collateral): it keeps earning, with the same share
            m.transfer_position_out(main)
        elif name == "transfer_out_in":
            m.transfer_position_out(main)
            m.transfer_position_in(main)
        elif name in ("add_same_then_rejected", "rejected_then_add_same", "remove_part_then_rejected"):
            # a write the market refuses (more than the wallet holds; the strategy catches the error) next to an accepted write in the same bar
            def refused():
                try:
                    m.add_liquidity_by_tick(L, U, Decimal(10**9), Decimal(10**12))
                except Exception:  # noqa: BLE001
                    return
                raise RuntimeError("oversized deposit was accepted in the C08 harness")
            if name == "rejected_then_add_same":
                refused()
            if name == "remove_part_then_rejected":
                m.remove_liquidity(main, liquidity=m.positions[main].liquidity // 3, collect=False)
            else:
                m.add_liquidity_by_tick(L, U, Decimal("0.3"), Decimal(300))
            if name != "rejected_then_add_same":
                refused()
        elif name == "empty_nocollect_add_over":
            # the first position is emptied but its tokens are not collected (it stays in the book with liquidity 0), then another range is opened
            m.remove_liquidity(main, collect=False)
            m.add_liquidity_by_tick(OVER[0], OVER[1], Decimal("0.5"), Decimal(500))
        elif name == "add_over_empty_over_nocollect":
            m.add_liquidity_by_tick(OVER[0], OVER[1], Decimal("0.5"), Decimal(500))
            m.remove_liquidity(PositionInfo(OVER[0], OVER[1]), collect=False)
        elif name == "open":
            m.add_liquidity_by_tick(L, U, Decimal(1), Decimal(1500))
        elif name == "none":
            pass
        else:
            raise ValueError(name)
    return f


_LOADER_SEQ = itertools.count(1)


def run_case(cfg):
    """cfg: closes, pool, dtype, open_bar, op, op_bar, hook, vols ('std'|'zero'). Returns per-bar observations."""
    from demeter.strategy.trigger import AtTimeTrigger
    from mc.worlds import base, uni
    from mc.worlds.base import Scripted, make_actuator, run_quiet

    closes = cfg["closes"]
    n = len(closes)
    grid = cfg.get("grid", "std")
    if grid == "std":
        pool = uni.pool_q0()
    else:
        from demeter import TokenInfo

        pool = uni.pool_q0(0.01, TokenInfo("USDC", 6), TokenInfo("USDT", 6))
    vols = cfg.get("vols", "std")
    in0 = [V0 * (i + 1) if vols in ("std", "only0") else 0 for i in range(n)]
    in1 = [V1 * (i + 2) if vols in ("std", "only1") else 0 for i in range(n)]
    liq = POOLS[cfg["pool"]]
    k = cfg.get("minutes_per_bar", 1)
    if k > 1:
        # k one-minute rows per bar, resampled by the actuator (interval = k minutes): the bar's close is its LAST minute's close, its volume the SUM
        # of the minutes' volumes (different every minute); the minutes inside a bar wander over the range
        m_closes, m0, m1 = [], [], []
        for i, c in enumerate(closes):
            for j in range(k):
                m_closes.append(c if j == k - 1 else TICKS[(3 * i + 5 * j) % len(TICKS)])
                m0.append(in0[i] * (j + 1) // 7)
                m1.append(in1[i] * (k - j) // 5)
        in0 = [sum(m0[i * k:(i + 1) * k]) for i in range(n)]
        in1 = [sum(m1[i * k:(i + 1) * k]) for i in range(n)]
        raw = uni.raw_frame(m_closes, m0, m1, liq, open_tick=m_closes[0], tick_dtype=cfg["dtype"])
    else:
        raw = uni.raw_frame(closes, in0, in1, liq, open_tick=closes[0], tick_dtype=cfg["dtype"])
    holes = cfg.get("holes") or ()
    if holes:
        for h in holes:
            in0[h] = in1[h] = 0  # a minute without swaps: nothing was paid in, the pool stayed where it was (the config repeats the previous close there)
        raw = uni.raw_frame(closes, in0, in1, liq, open_tick=closes[0], tick_dtype=cfg["dtype"])
    if cfg.get("gap_bars"):
        # the bar's own open / high / low columns describe the swaps INSIDE the bar: after a gap they start at the bar's close, not at the previous close
        for col in ("openTick", "lowestTick", "highestTick"):
            raw[col] = raw["closeTick"]
    if holes:
        # the history comes from minute FILES as the downloader writes them: no row for a minute without swaps (the first minute of the day included); the
        # repository's loader re-indexes to the full minute grid and fills the holes (flows with 0, states with the last known value, a blank head with the first)
        import datetime
        import itertools as _it
        import os
        import shutil
        import tempfile

        import demeter.data.data_cache as dc
        from demeter import MarketInfo
        from demeter.uniswap import UniLpMarket

        d = tempfile.mkdtemp(prefix="c08-loader-")
        try:
            dc.CACHE_PATH = os.path.join(d, "cache")  # harness process only: the loader's feather cache lives in ~/.demeter otherwise
            dc.CACHE_CONFIG_PATH = os.path.join(dc.CACHE_PATH, "config.pkl")
            addr = "0x" + format(next(_LOADER_SEQ), "x")
            rows = raw.drop(index=[raw.index[h] for h in holes]).copy()
            for col in rows.columns:
                rows[col] = [int(v) for v in rows[col]]
            rows.insert(0, "timestamp", rows.index)
            day = raw.index[0].date()
            rows.to_csv(os.path.join(d, f"ethereum-{addr}-{day.strftime('%Y-%m-%d')}.minute.csv"), index=False)
            market = UniLpMarket(MarketInfo("uni"), pool, data_path=d)
            market.load_data("ethereum", addr, day, day)
            market.data = market.data.iloc[:n].copy()
        finally:
            shutil.rmtree(d, ignore_errors=True)
    else:
        market = uni.make_market(pool, uni.prepared(raw, pool))
    script = {("on_bar", cfg["open_bar"]): [do_op("open", grid)]}
    op, hook, ob = cfg["op"], cfg["hook"], cfg["op_bar"]
    if op != "none":
        if hook == "after_prev":
            script.setdefault(("after_bar", ob - 1), []).append(do_op(op, grid))
        elif hook == "trigger":
            def init(strategy, _):
                f = do_op(op, grid)
                strategy.triggers.append(AtTimeTrigger(raw.index[ob * k].to_pydatetime(), lambda snap: f(strategy, snap)))
            script[("initialize", -1)] = [init]
        else:
            script.setdefault((hook, ob), []).append(do_op(op, grid))
    st = Scripted(script)
    obs = []
    real_update = market.update

    def wrapped_update():
        before = {k: (p.pending_amount0, p.pending_amount1, p.liquidity) for k, p in market.positions.items()}
        real_update()
        after = {k: (p.pending_amount0, p.pending_amount1, p.liquidity) for k, p in market.positions.items()}
        obs.append((before, after))

    market.update = wrapped_update
    markets = [market]
    if cfg.get("idle_market_first"):
        # another market of the same account, registered BEFORE the pool under test, in which nothing is ever written
        other = uni.make_market(uni.pool_q0(0.3), uni.prepared(uni.raw_frame([200000] * len(raw.index), 0, 0, 10**18, open_tick=200000), uni.pool_q0(0.3)), "idle")
        markets = [other, market]
    act = make_actuator(markets, [(pool.token0, 10**6), (pool.token1, 10**6 if grid == "zero" else 1000)], st,
                        None if cfg.get("second_window") else market.get_price_from_data(), interval=f"{k}min")
    err = None
    try:
        if cfg.get("second_window"):
            # walk-forward: the same market object and actuator first run over ANOTHER window of history (other closes, other volumes, same bar interval), then the
            # window under test is assigned to the market and the actuator runs again; the second run's bars are judged like any run's (its bar 0 has no
            # previous bar of its own window and is only bounded)
            other_closes = [TICKS[(2 * i + 1) % len(TICKS)] for i in range(len(raw.index))]
            import datetime

            other = uni.raw_frame(other_closes, [V0 * 3] * len(raw.index), [V1 // 7] * len(raw.index), liq * 2, open_tick=other_closes[0], tick_dtype=cfg["dtype"],
                                  start=raw.index[0].to_pydatetime() - datetime.timedelta(days=1))  # the earlier window lies a day before the one under test
            wanted = market.data
            market.data = uni.prepared(other, pool)
            act.set_price(market.get_price_from_data())
            run_quiet(act)
            market.data = wanted
            act.set_price(market.get_price_from_data())  # every window comes with its own price series
            obs.clear()
            st.errors.clear()
        run_quiet(act)
    except Exception as e:
        err = f"{type(e).__name__}: {str(e)[:80]}"
    if cfg.get("second_window") and err is None and len(obs) != n:
        err = f"BarCount: the second window has {n} bars, the market was updated {len(obs)} times"
    return obs, st.errors, err, (in0, in1, liq, pool)


def judge(part: Part, cfg):
    obs, op_errors, err, (in0, in1, pool_liq, pool) = run_case(cfg)
    part.count("runs")
    closes = cfg["closes"]
    tag = f"{cfg['dtype']}" + ("|zero-grid" if cfg.get("grid") == "zero" else "")
    if err is not None:
        part.violation(f"C08|exception|{err.split(':')[0]}|{tag}", f"bar loop raised while accruing fees: {err}", cfg)
        return
    if op_errors:
        # a scripted op that is rejected makes the case meaningless for this property: harness alphabet problem
        raise RuntimeError(f"scripted operation rejected in C08 harness: {op_errors} cfg={cfg}")
    fee_rate = Fraction(pool.fee_rate)
    for i, (before, after) in enumerate(obs):
        total_own = sum(v[2] for v in before.values())
        for key, (p0, p1, own) in before.items():
            part.count("position_bars")
            a0, a1, own_after = after[key]
            d0, d1 = Fraction(a0) - Fraction(p0), Fraction(a1) - Fraction(p1)
            lo, hi = key.lower_tick, key.upper_tick
            vol0 = Fraction(in0[i], 10**pool.token0.decimal)
            vol1 = Fraction(in1[i], 10**pool.token1.decimal)
            own = Fraction(own)
            single_share = own / (pool_liq + own) if own else Fraction(0)
            case = dict(cfg, bar=i, position=[lo, hi])
            if d0 < 0 or d1 < 0:
                part.violation(f"C08|negative|{tag}", "a bar's fee is negative", case, {"d0": str(d0), "d1": str(d1)})
                continue
            if i == 0:
                # no previous bar: only bounded
                if d0 > vol0 * fee_rate * single_share * (1 + REL) or d1 > vol1 * fee_rate * single_share * (1 + REL):
                    part.violation(f"C08|bar0|above-max|{tag}", "bar-0 fee exceeds volume x rate x share", case)
                continue
            a, b = closes[i - 1], closes[i]
            w = weight(a, b, lo, hi)
            if w > 0 and own > 0 and (vol0 > 0 or vol1 > 0):
                part.count("nontrivial")
            e0 = vol0 * fee_rate * w * single_share
            e1 = vol1 * fee_rate * w * single_share
            klass = "stationary" if a == b else ("crossing" if 0 < w < 1 else ("inside" if w == 1 else "outside"))
            if not any(v[2] > 0 for k2, v in before.items() if k2 != key):
                # the only position that holds liquidity (others, if any, were emptied and only wait for their tokens to be collected)
                ok = abs(d0 - e0) <= REL * max(e0, Fraction(1, 10**20)) and abs(d1 - e1) <= REL * max(e1, Fraction(1, 10**20))
                if not ok:
                    direction = "low" if (d0 < e0 or d1 < e1) else "high"
                    opname = cfg["op"] if cfg["op_bar"] == i or (cfg["hook"] == "after_prev" and cfg["op_bar"] - 1 == i) else "none"
                    part.violation(f"C08|single|{klass}|{direction}|op={opname}|{tag}",
                                   f"bar fee differs from volume x rate x path fraction x own/(pool+own) ({klass} path, same-bar op {opname})",
                                   case, {"got": [float(d0), float(d1)], "want": [float(e0), float(e1)], "a": a, "b": b, "w": str(w),
                                          "own": str(own)})
            else:
                if d0 > e0 * (1 + REL) or d1 > e1 * (1 + REL):
                    part.violation(f"C08|multi|above-single|{klass}|{tag}",
                                   "with several positions a position earned more than its single-position amount", case,
                                   {"got": [float(d0), float(d1)], "max": [float(e0), float(e1)]})
                # the implementation's sharing rule own/(pool + sum own) is the only one consistent with "never more";
                # we do not demand it exactly, but we do demand > 0 when the path is in range
                if w > 0 and own > 0 and (vol0 > 0) and d0 == 0:
                    part.violation(f"C08|multi|zero|{klass}|{tag}", "in-range position with volume earned nothing", case)
            if w == 0 and (d0 != 0 or d1 != 0):
                part.violation(f"C08|outside-earned|{tag}", "position out of range for the whole bar earned a fee", case)


def configs(thorough):
    out = []
    dtypes = ["float64", "int64"]
    # (1) all tick paths, single position opened in bar 0, no same-bar op
    for c in itertools.product(TICKS, repeat=3):
        for pool in POOLS:
            out.append({"closes": list(c), "pool": pool, "dtype": "float64", "open_bar": 0, "op": "none", "op_bar": 1,
                        "hook": "on_bar"})
    # int64 ticks: all (prev, close) pairs at bar 1
    for a, b in itertools.product(TICKS, repeat=2):
        out.append({"closes": [TICKS[4], a, b], "pool": "small", "dtype": "int64", "open_bar": 0, "op": "none", "op_bar": 1,
                    "hook": "on_bar"})
    # (2) same-bar operations at bar 1 (and position opened in bar 1 = liquidity added during a bar)
    ops = OPS[1:]
    hooks = HOOKS if thorough else HOOKS[:2] + HOOKS[3:]
    for a, b in itertools.product(TICKS, repeat=2):
        for op in ops:
            for hook in hooks:
                out.append({"closes": [TICKS[4], a, b], "pool": "small", "dtype": "float64", "open_bar": 0, "op": op,
                            "op_bar": 2 if hook != "after_prev" else 2, "hook": hook})
        out.append({"closes": [TICKS[4], a, b], "pool": "small", "dtype": "float64", "open_bar": 1, "op": "none", "op_bar": 1,
                    "hook": "on_bar"})
        out.append({"closes": [TICKS[4], a, b], "pool": "large", "dtype": "float64", "open_bar": 2, "op": "none", "op_bar": 1,
                    "hook": "on_bar"})
    # zero volume
    for a, b in itertools.product(TICKS[::2], repeat=2):
        out.append({"closes": [TICKS[4], a, b], "pool": "small", "dtype": "float64", "open_bar": 0, "op": "none", "op_bar": 1,
                    "hook": "on_bar", "vols": "zero"})
    # two markets in the account, the other one (idle) first: the refresh after a write must reach the pool all the same
    for a, b in itertools.product(TICKS[::2], repeat=2):
        for op in ("add_same", "remove_part"):
            out.append({"closes": [TICKS[4], a, b], "pool": "small", "dtype": "float64", "open_bar": 0, "op": op, "op_bar": 2, "hook": "on_bar", "idle_market_first": True})
        out.append({"closes": [TICKS[4], a, b], "pool": "small", "dtype": "float64", "open_bar": 1, "op": "none", "op_bar": 1, "hook": "on_bar", "idle_market_first": True})
    # gap bars: open / high / low of the bar equal its close (the previous close lies outside the bar's own high-low span)
    for a, b in itertools.product(TICKS, repeat=2):
        out.append({"closes": [TICKS[4], a, b], "pool": "small", "dtype": "float64", "open_bar": 0, "op": "none", "op_bar": 1, "hook": "on_bar", "gap_bars": True})
    # one-way flow: only one of the two tokens was paid in during the bars
    for a, b in itertools.product(TICKS, repeat=2):
        for v in ("only0", "only1"):
            out.append({"closes": [TICKS[4], a, b], "pool": "small", "dtype": "float64", "open_bar": 0, "op": "none", "op_bar": 1, "hook": "on_bar", "vols": v})
    # resampled bars (2 and 5 one-minute rows per bar)
    for a, b in itertools.product(TICKS, repeat=2):
        for k in ((2, 5) if thorough else (5,)):
            out.append({"closes": [TICKS[4], a, b], "pool": "small", "dtype": "float64", "open_bar": 0, "op": "none", "op_bar": 1, "hook": "on_bar",
                        "minutes_per_bar": k})
    for a, b in itertools.product(TICKS[::2], repeat=2):
        out.append({"closes": [TICKS[4], a, b], "pool": "small", "dtype": "float64", "open_bar": 0, "op": "add_same", "op_bar": 2, "hook": "on_bar", "minutes_per_bar": 2})
    # minute files with holes (no row for a minute without swaps, a blank first minute) read by the repository's loader: the hole minutes repeat the previous close
    for a, b, c in itertools.product(TICKS[::2], repeat=3):
        out.append({"closes": [a, a, b, b, b, c, c, TICKS[4]], "holes": [0, 3, 4, 6], "pool": "small", "dtype": "float64", "open_bar": 1, "op": "none", "op_bar": 1, "hook": "on_bar"})
    # a second window of history on the same market object and actuator (1-minute and resampled bars)
    for a, b in itertools.product(TICKS[::2], repeat=2):
        for k in (1, 5):
            out.append({"closes": [TICKS[4], a, b], "pool": "small", "dtype": "float64", "open_bar": 0, "op": "none", "op_bar": 1, "hook": "on_bar", "minutes_per_bar": k,
                        "second_window": True})
    # (3) the grid centred on tick 0: all 3-bar paths (previous close exactly 0 among them), and lending the position out
    for c in itertools.product(ZTICKS, repeat=3):
        out.append({"closes": list(c), "pool": "small", "dtype": "float64", "open_bar": 0, "op": "none", "op_bar": 1, "hook": "on_bar", "grid": "zero"})
    for a, b in itertools.product(ZTICKS, repeat=2):
        out.append({"closes": [0, a, b], "pool": "small", "dtype": "int64", "open_bar": 0, "op": "transfer_out", "op_bar": 1, "hook": "on_bar", "grid": "zero"})
    if thorough:
        # 4 bars: all paths, with an op in bar 2 on both dtypes
        for c in itertools.product(TICKS, repeat=4):
            out.append({"closes": list(c), "pool": "small", "dtype": "float64", "open_bar": 0, "op": "none", "op_bar": 1,
                        "hook": "on_bar"})
        for c in itertools.product(TICKS, repeat=3):
            for op in ("add_far", "add_over", "remove_part", "add_remove"):
                out.append({"closes": [TICKS[4]] + list(c), "pool": "small", "dtype": "int64", "open_bar": 0, "op": op, "op_bar": 2,
                            "hook": "on_bar"})
    return out


def work(args):
    seed, cfgs = args
    part = Part(seed)
    for cfg in cfgs:
        part.sample(cfg, every=503)
        judge(part, cfg)
    return part.result()


def main(run: Run):
    cfgs = run.rotate(configs(run.thorough))
    for p in pmap(work, [(run.seed, c) for c in chunks(cfgs, 64)]):
        run.merge(p)
    runs = run.counters.get("runs", 0)
    cov = {
        "states": run.counters.get("position_bars", 0),
        "transitions": run.counters.get("position_bars", 0),
        "traces_validated_against_impl": runs,
        "evaluations": runs,
        "distinct_nontrivial": run.counters.get("nontrivial", 0),
        "rule": f"close ticks from {TICKS} (range [{L},{U}]) and, on a stable pool, from {ZTICKS} (range [{ZL},{ZU}], previous close exactly 0 included), all 3-bar paths (thorough: 4-bar), all (previous close, close) pairs "
                f"under same-bar operations {OPS[1:]} placed in before_bar / on_bar / a trigger / the previous after_bar, position "
                "opened in bar 0, 1 or 2, pool liquidity small/large, ticks float64 and int64, distinct volumes per bar and zero "
                "volume. states = (run, bar, position) fee deltas judged; distinct_nontrivial = those with positive expected fee.",
        "exhaustive": True,
        "completed_bound": {"bars": 4 if run.thorough else 3, "configs": len(cfgs)},
    }
    return run.finish(cov, [
        "bar 0 has no previous close: only 0 <= fee <= volume x rate x share is demanded there",
        "with several positions only 'never more than the single-position amount' (and > 0 when in range) is demanded",
        "stationary path (a == b) earns iff lower <= a < upper (active-liquidity convention of the protocol)",
    ])


def replay(run: Run, path):
    data = json.load(open(path))
    c = data["case"]
    cfg = {k: c[k] for k in ("closes", "pool", "dtype", "open_bar", "op", "op_bar", "hook", "grid", "minutes_per_bar", "idle_market_first", "gap_bars", "second_window", "holes") if k in c}
    if "vols" in c:
        cfg["vols"] = c["vols"]
    part = Part()
    judge(part, cfg)
    for sig, v in part.violations.items():
        print("reproduced:", sig, v[0], v[2])
    print("REPLAY", "violations" if part.violations else "clean")
    return 1 if part.violations else 0
