"""C17 — GMX mint / redeem: fees bounded and rule-based, round trips never profit, rewards pro rata, no over-redemption.

v1 (GLP): exhaustive product pool state (USDG of the traded token far below / below / at / above / far above its
target) x token (18 and 6 decimals) x amount (tiny, mid, crossing the target, several targets) x operation sequence
(buy; sell; buy-sell round trip; buy-buy-sell) on the real GmxMarket, against the Vault / GlpManager rules evaluated in
INTEGER arithmetic (mc/worlds/gmx.py).  v2 (GM): pool state (balanced / mildly / strongly imbalanced either way) x
impact pool (0 / small / large) x deposit shape (long only, short only, both; small, large, crossing) x withdrawal
(part, all, over) on the real GmxV2Market against the deposit / withdrawal rules (floats, 1e-9)."""
from __future__ import annotations

import itertools
import json
from decimal import Decimal
from fractions import Fraction

from mc.engine.core import Part, Run, chunks, pmap
from mc.worlds.kit import F

LEVEL = "model_checking"
USDG_CLASSES = {"far-below": 0.2, "below": 0.6, "at": 1.0, "above": 1.5, "far-above": 3.5}
V1_AMOUNTS = {"tiny": 10, "mid": None, "cross": None, "multi": None}  # USD values resolved per state
REL = Fraction(1, 10**12)


def dec(fr: Fraction) -> Decimal:
    return Decimal(fr.numerator) / Decimal(fr.denominator)


# =========================================================== v1 ==============================================================
V1_VARIANTS = {  # (prices, aum USD, GLP supply): the second one has a GLP price above 1 and odd prices
    "std": ({"weth": 2600, "wavax": 29, "usdc": 1}, 21_919_427, 23_218_773),
    "odd": ({"weth": 1317, "wavax": 11, "usdc": 1}, 31_000_003, 23_218_773),
    "cheap-glp": ({"weth": 3999, "wavax": 47, "usdc": 1}, 9_000_001, 23_218_773),
}


def v1_ctx(tok_name, cls, variant="std"):
    from demeter._typing import USD
    from mc.worlds import gmx
    from mc.worlds.kit import Ctx

    usdg_class = {"weth": 0.6, "wavax": 1.5, "usdc": 1.0}
    usdg_class[tok_name] = USDG_CLASSES[cls]
    pr, aum, supply = V1_VARIANTS[variant]
    import pandas as pd
    from mc.worlds.base import minutes

    old = dict(gmx.V1_PRICE)
    gmx.V1_PRICE.update(pr)
    try:
        data = pd.DataFrame([gmx.v1_row(usdg_class, aum_usd=aum + 10_000 * i, supply_glp=supply + 371_009 * i * (1 if variant != "odd" else -1)) for i in range(4)], index=minutes(4))  # the GLP supply moves from bar to bar
    finally:
        gmx.V1_PRICE.update(old)
    # the pool's target weights are data too and change over time: from bar 2 on the traded token's weight is a quarter of what it was
    col = f"{tok_name}_weight"
    data[col] = [data[col].iloc[0]] * 2 + [max(int(data[col].iloc[0]) // 4, 1)] * 2
    prices = gmx.v1_prices(data)
    m = gmx.make_v1(data)
    ad = gmx.Gmx1Adapter(m, data)
    ctx = Ctx("gmx1", prices, USD, [ad], [(gmx.WETH, 10**5), (gmx.WAVAX, 10**7), (gmx.USDC, 10**9)], data.index)
    ctx.begin_bar(1)
    return ctx, gmx


def v1_amounts(gmx, row, tok):
    n = tok.name.lower()
    total_w = sum(int(row[f"{t.name.lower()}_weight"]) for t in gmx.V1_TOKENS)
    target = int(row[f"{n}_weight"]) * int(row["usdg"]) // total_w
    cur = int(row[f"{n}_usdg"])
    gap = abs(target - cur) or target // 10
    price = Fraction(int(row[f"{n}_price"]), gmx.P30)
    usd = {"tiny": Fraction(10), "mid": Fraction(gap, 10**18) / 10, "cross": Fraction(gap, 10**18) * 2, "multi": Fraction(target, 10**18) * 3}
    return {k: v / price for k, v in usd.items()}


def judge_v1(part, tok_name, cls, variant="std", seq_len=3):
    ctx, gmx = v1_ctx(tok_name, cls, variant)
    ad = ctx.adapters[0]
    m = ad.market
    tok = {t.name.lower(): t for t in gmx.V1_TOKENS}[tok_name]
    row = ad.row()
    base_snap = ctx.snapshot()
    amts = v1_amounts(gmx, row, tok)
    for aname, amt in amts.items():
        case = {"version": 1, "token": tok_name, "usdg_class": cls, "amount": aname, "variant": variant}
        amt_d = dec(amt).quantize(Decimal(1).scaleb(-tok.decimal))
        amt = F(amt_d)
        # ---- buy ------------------------------------------------------------------------------------------------------------
        want_glp, want_bps = gmx.v1_mint(row, tok, amt)
        wei = int(amt * 10**tok.decimal)
        usdg_gross = wei * int(row[f"{tok_name}_price"]) // gmx.P30 * 10**18 // 10**tok.decimal
        got_bps = m.get_fee_basis_points(tok, Decimal(usdg_gross), True)
        part.count("v1_fee_evaluations")
        if not (0 <= got_bps <= 85):
            part.violation("C17|v1|fee-range|buy", "mint fee outside [0, base + tax] = [0, 85] bp", case, {"bps": float(got_bps)})
        if abs(F(Decimal(got_bps)) - want_bps) > 1:
            part.violation("C17|v1|fee-rule|buy", "mint fee differs from the Vault's getFeeBasisPoints rule by more than 1 bp", case,
                           {"got": float(got_bps), "rule": want_bps})
        w0 = ctx.wallet()[tok.name]
        try:
            got_glp = m.buy_glp(tok, amt_d)
        except Exception as e:  # noqa: BLE001
            part.violation("C17|v1|buy-raised", "a payable GLP purchase raised", case, {"error": repr(e)[:200]})
            ctx.restore(base_snap)
            continue
        part.count("v1_buys")
        want_glp, _ = gmx.v1_mint(row, tok, amt, F(Decimal(got_bps)))  # amounts follow from the fee actually charged (judged above, 1 bp)
        unit_slack = Fraction(3, 10**tok.decimal) * Fraction(int(row[f"{tok_name}_price"]), gmx.P30)  # one rounding step of the token, in GLP (~USD)
        if abs(F(got_glp) - want_glp) > REL * max(want_glp, 1) + unit_slack:
            part.violation(f"C17|v1|mint-amount|dec{tok.decimal}", "GLP minted differs from price x amount after fee / value per share with the contract's "
                           "round-down steps", case, {"got": str(got_glp), "rule": float(want_glp), "fee_bps_rule": want_bps})
        if ctx.wallet()[tok.name] != w0 - amt_d or m.glp_amount != got_glp:
            part.violation("C17|v1|buy-bookkeeping", "wallet / GLP holding did not move by the stated amounts", case)
        # ---- immediate round trip ---------------------------------------------------------------------------------------------
        mid = ctx.snapshot()
        for frac_name, frac in (("all", Fraction(1)), ("half", Fraction(1, 2))):
            glp_sell = dec(F(got_glp) * frac)
            want_out, want_sbps = gmx.v1_redeem(row, tok, F(glp_sell))
            usdg_amt = int(F(glp_sell) * 10**18) * int(Decimal(row["aum"]) / Decimal(10**12)) // int(row["glp"])
            got_sbps = m.get_fee_basis_points(tok, Decimal(usdg_amt), False)
            part.count("v1_fee_evaluations")
            if not (0 <= got_sbps <= 85):
                part.violation("C17|v1|fee-range|sell", "redeem fee outside [0, 85] bp", case, {"bps": float(got_sbps)})
            if abs(F(Decimal(got_sbps)) - want_sbps) > 1:
                part.violation("C17|v1|fee-rule|sell", "redeem fee differs from the Vault rule by more than 1 bp", dict(case, sell=frac_name),
                               {"got": float(got_sbps), "rule": want_sbps})
            w1 = ctx.wallet()[tok.name]
            try:
                out = m.sell_glp(tok, glp_sell)
            except Exception as e:  # noqa: BLE001
                part.violation("C17|v1|sell-raised", "selling held GLP raised", dict(case, sell=frac_name), {"error": repr(e)[:200]})
                ctx.restore(mid)
                continue
            part.count("v1_sells")
            want_out, _ = gmx.v1_redeem(row, tok, F(glp_sell), F(Decimal(got_sbps)))
            if abs(F(out) - want_out) > REL * max(want_out, Fraction(1, 10**tok.decimal)) + Fraction(2, 10**tok.decimal):
                part.violation(f"C17|v1|redeem-amount|dec{tok.decimal}", "tokens redeemed differ from GLP x value per share / price after fee", dict(case, sell=frac_name),
                               {"got": str(out), "rule": float(want_out)})
            if ctx.wallet()[tok.name] != w1 + out:
                part.violation("C17|v1|sell-bookkeeping", "wallet did not receive the returned amount", dict(case, sell=frac_name))
            if frac == 1:
                part.count("v1_round_trips")
                if F(out) > amt:
                    part.violation("C17|v1|round-trip-profit", "buying GLP and redeeming it for the same token in the same bar returned more than was paid",
                                   case, {"paid": str(amt_d), "returned": str(out)})
                if m.glp_amount != 0:
                    part.violation("C17|v1|residual", "GLP left after selling the whole holding", case, {"glp": str(m.glp_amount)})
            ctx.restore(mid)
        # ---- over-redemption ---------------------------------------------------------------------------------------------------
        try:
            m.sell_glp(tok, m.glp_amount * Decimal("1.001") + Decimal("1e-9"))
            part.violation("C17|v1|over-redeem", "more GLP than held could be sold", case, {"held_after": str(m.glp_amount)})
        except Exception:  # noqa: BLE001
            part.count("v1_over_redeem_rejected")
        ctx.restore(mid)
        for hair in (Decimal("1e-12"), Decimal("1e-25")):
            held = m.glp_amount
            try:
                o = m.sell_glp(tok, held * (1 + hair))
            except Exception:  # noqa: BLE001
                part.count("v1_over_redeem_rejected")
                ctx.restore(mid)
                continue
            if m.glp_amount < 0:
                part.violation("C17|v1|over-redeem|hair", "a sale slightly above the GLP holding left a negative holding", dict(case, excess=str(hair)),
                               {"held": str(held), "held_after": str(m.glp_amount)})
            ctx.restore(mid)
        # ---- rewards keep accruing on what is left after a partial sale (more than half sold, less than half sold) ---------------------------------
        for frac_name, frac in (("sold-60%", Decimal("0.6")), ("sold-30%", Decimal("0.3"))):
            try:
                m.sell_glp(tok, (m.glp_amount * frac))
            except Exception as e:  # noqa: BLE001
                part.violation("C17|v1|sell-raised", "selling held GLP raised", dict(case, sell=frac_name), {"error": repr(e)[:200]})
                ctx.restore(mid)
                continue
            held_p, r0_p = F(m.glp_amount), F(m.reward)
            ctx.advance()
            rp = ad.data.loc[ctx.index[ctx.bar - 1]]
            want_p = F(Decimal(rp["interval"])) * 60 * held_p / F(Decimal(rp["glp"]))
            part.count("v1_reward_bars")
            if abs((F(m.reward) - r0_p) - want_p) > REL * max(want_p, Fraction(1, 10**30)):
                part.violation("C17|v1|reward|after-partial-sale", "after a partial sale the remaining GLP did not earn interval x 60 x held / supply in the next bar", dict(case, sell=frac_name),
                               {"got": str(m.reward - dec(r0_p)), "rule": float(want_p), "held": float(held_p)})
            ctx.restore(mid)
        # ---- buy again with another token then sell everything for the first: total out <= total in (value terms) ---------------
        other = gmx.WAVAX if tok != gmx.WAVAX else gmx.WETH
        o_amt = Decimal(50)
        try:
            m.buy_glp(other, o_amt)
            o_usdg = int(F(o_amt) * 10**other.decimal) * int(row[f"{other.name.lower()}_price"]) // gmx.P30 * 10**18 // 10**other.decimal
            g2, _ = gmx.v1_mint(row, other, F(o_amt), F(Decimal(m.get_fee_basis_points(other, Decimal(o_usdg), True))))
            if abs(F(m.glp_amount) - (F(got_glp) + g2)) > REL * (F(got_glp) + g2) + Fraction(1, 10**12):
                part.violation("C17|v1|holding-sum", "GLP holding is not the sum of the minted amounts", case)
        except Exception as e:  # noqa: BLE001
            part.violation("C17|v1|buy-raised", "a payable GLP purchase raised", dict(case, second=other.name), {"error": repr(e)[:200]})
        # ---- rewards accrue pro rata over bars -----------------------------------------------------------------------------------
        held = F(m.glp_amount)
        r0 = F(m.reward)
        ctx.advance()
        r = ad.data.loc[ctx.index[ctx.bar - 1]]
        want_r = F(Decimal(r["interval"])) * 60 * held / F(Decimal(r["glp"]))
        part.count("v1_reward_bars")
        if abs((F(m.reward) - r0) - want_r) > REL * max(want_r, Fraction(1, 10**30)):
            part.violation("C17|v1|reward", "reward of a bar != interval x 60 x held / supply", case, {"got": str(m.reward - dec(r0)), "rule": float(want_r)})
        if ctx.bar + 1 < len(ctx.index):
            # ... and in the bar after that, in which the holder does nothing and the pool's GLP supply is another one: the share is that bar's share
            hold_snap = ctx.snapshot()
            r1 = F(m.reward)
            ctx.advance()
            rr = ad.data.loc[ctx.index[ctx.bar - 1]]
            want_rr = F(Decimal(rr["interval"])) * 60 * held / F(Decimal(rr["glp"]))
            part.count("v1_reward_bars")
            if abs((F(m.reward) - r1) - want_rr) > REL * max(want_rr, Fraction(1, 10**30)):
                part.violation("C17|v1|reward|idle-bar", "in a bar without own trades (the pool's GLP supply has changed since the last one) the reward != interval x 60 x held / that bar's supply",
                               case, {"got": str(m.reward - dec(r1)), "rule": float(want_rr), "supply": str(rr["glp"])})
            ctx.restore(hold_snap)
        # ---- the next bar has other target weights: the fee rule must be evaluated with THAT bar's weights -------------------------------------
        row2 = ad.row()
        amt2 = dec(v1_amounts(gmx, row2, tok)["mid"]).quantize(Decimal(1).scaleb(-tok.decimal))
        wei2 = int(F(amt2) * 10**tok.decimal)
        usdg2 = wei2 * int(row2[f"{tok_name}_price"]) // gmx.P30 * 10**18 // 10**tok.decimal
        _, want_bps2 = gmx.v1_mint(row2, tok, F(amt2))
        got_bps2 = m.get_fee_basis_points(tok, Decimal(usdg2), True)
        part.count("v1_fee_evaluations")
        if abs(F(Decimal(got_bps2)) - want_bps2) > 1 or not (0 <= got_bps2 <= 85):
            part.violation("C17|v1|fee-rule|buy|later-bar", "in a later bar (other target weights) the mint fee differs from the Vault rule for that bar's pool state", case,
                           {"got": float(got_bps2), "rule": want_bps2, "weights": {t.name: int(row2[f"{t.name.lower()}_weight"]) for t in gmx.V1_TOKENS}})
        part.sample(case, every=11)
        ctx.restore(base_snap)
    # ---- all buy / sell sequences with this token up to seq_len, closed by selling everything: never more out than in -------------------
    alphabet = [("buy", "mid"), ("buy", "cross"), ("sell", Fraction(1, 2)), ("sell", Fraction(1, 3))]
    for k in range(1, seq_len + 1):
        for seq in itertools.product(alphabet, repeat=k):
            if seq[0][0] == "sell":
                continue
            ctx.restore(base_snap)
            paid = Fraction(0)
            got = Fraction(0)
            case = {"version": 1, "token": tok_name, "usdg_class": cls, "variant": variant, "sequence": [f"{a}:{b}" for a, b in seq] + ["sell:all"]}
            ok = True
            for kind, arg in list(seq) + [("sell", Fraction(1))]:
                try:
                    if kind == "buy":
                        a = dec(amts[arg]).quantize(Decimal(1).scaleb(-tok.decimal))
                        m.buy_glp(tok, a)
                        paid += F(a)
                    elif m.glp_amount > 0:
                        got += F(m.sell_glp(tok, dec(F(m.glp_amount) * arg) if arg != 1 else m.glp_amount))
                except Exception as e:  # noqa: BLE001
                    part.violation("C17|v1|sequence-raised", "a payable / covered GLP operation raised inside a sequence", case, {"error": repr(e)[:200]})
                    ok = False
                    break
                if m.glp_amount < 0:
                    part.violation("C17|v1|negative-glp", "negative GLP holding", case)
            part.count("v1_sequences")
            if ok and got > paid:
                part.violation("C17|v1|sequence-profit", "a same-bar sequence of GLP purchases and redemptions in one token returned more than was paid", case,
                               {"paid": float(paid), "returned": float(got)})
    ctx.restore(base_snap)


# =========================================================== v2 ==============================================================
V2_KINDS = ["balanced", "mild", "strong", "strong_short", "single-token"]
V2_IMPACTS = ["0", "small", "large", "no-impact-factors"]  # the last: a pool configured without swap price impact (both factors 0): every deposit has impact exactly 0
V2_DEPOSITS = {  # (long USD, short USD)
    "long-small": (20_000, 0), "short-small": (0, 20_000), "both-small": (15_000, 9_000),
    "long-large": (3_000_000, 0), "short-large": (0, 3_000_000), "both-large": (2_000_000, 1_000_000),
    "short-cross": (0, 9_000_000), "long-cross": (9_000_000, 0), "short-flip-big": (0, 40_000_000), "long-flip-big": (40_000_000, 0),
}


def v2_ctx(kind, impact):
    from demeter._typing import USD
    from mc.worlds import gmx
    from mc.worlds.kit import Ctx

    single = kind == "single-token"  # a pool whose long and short token are the same token (exists in GMX v2): both legs are paid in that token
    data = gmx.v2_frame(3, "mild" if single else kind, "large" if impact == "no-impact-factors" else impact, single)
    m = gmx.make_v2(data, single_token=single)
    if single:
        import pandas as pd

        prices = pd.DataFrame(index=data.index, data={"WETH": [Decimal(str(x)) for x in data["longPrice"]]})
        prices["USD"] = Decimal(1)
    else:
        prices = gmx.v2_prices(data, m)
    ad = gmx.Gmx2Adapter(m, data)
    ctx = Ctx("gmx2", prices, USD, [ad], [(gmx.V2_LONG, 10**6)] + ([] if single else [(gmx.V2_SHORT, 10**9)]), data.index)
    ctx.begin_bar(1)
    # the fee factors are per-pool configuration; with the "small" impact pool the pool charges other factors than the defaults (all four different)
    if impact == "small":
        gmx.set_v2_fees(m, dep_pos=0.0004, dep_neg=0.0009, wd_pos=0.0011, wd_neg=0.0025)
        gmx.set_v2_impact(m, pos=6e-10, neg=3e-10)  # configured the wrong way round: the protocol caps the positive factor at the negative one
    elif impact == "no-impact-factors":
        gmx.set_v2_fees(m)
        gmx.set_v2_impact(m, pos=0.0, neg=0.0)
    else:
        gmx.set_v2_fees(m)
        gmx.set_v2_impact(m)
    return ctx, gmx


def closef(a, b, rel=1e-9, abs_=1e-12):
    return abs(a - b) <= abs_ + rel * max(abs(a), abs(b))


def judge_v2(part, kind, impact):
    ctx, gmx = v2_ctx(kind, impact)
    ad = ctx.adapters[0]
    m = ad.market
    row = ad.row()
    base = ctx.snapshot()
    for dname, (lu, su) in V2_DEPOSITS.items():
        case = {"version": 2, "pool": kind, "impact_pool": impact, "deposit": dname}
        la, sa = lu / row["longPrice"], su / row["shortPrice"]
        want_gm, granted = gmx.v2_mint(row, la, sa)
        w0 = dict(ctx.wallet())
        try:
            res = m.deposit(la, sa)
        except Exception as e:  # noqa: BLE001
            part.violation("C17|v2|deposit-raised", "a payable GM deposit raised", case, {"error": repr(e)[:200]})
            ctx.restore(base)
            continue
        part.count("v2_deposits")
        if not closef(res.gm_amount, want_gm) or not closef(m.amount, want_gm):
            part.violation("C17|v2|mint-amount", "GM minted differs from pool value per share with deposit fee factors and capped price impact", case,
                           {"got": res.gm_amount, "rule": want_gm, "price_impact_usd": res.price_impact_usd})
        w1 = ctx.wallet()
        single = kind == "single-token"
        if single:
            if not closef(float(w0["WETH"] - w1["WETH"]), la + sa, 1e-12):
                part.violation("C17|v2|deposit-bookkeeping", "wallet not debited by the deposited amounts (both legs of a single-token pool are paid in the one token)", case,
                               {"debited": float(w0["WETH"] - w1["WETH"]), "deposited": la + sa})
        elif not closef(float(w0["WETH"] - w1["WETH"]), la, 1e-12) or not closef(float(w0["USDC"] - w1["USDC"]), sa, 1e-12):
            part.violation("C17|v2|deposit-bookkeeping", "wallet not debited by the deposited amounts", case)
        imp_cap = row["impactPoolAmount"]
        if res.price_impact_usd > 0:
            part.count("v2_positive_impact")
        mid = ctx.snapshot()
        # ---- withdraw part / all / over ----------------------------------------------------------------------------------------
        for wname, f in (("part", 0.4), ("all", 1.0)):
            gm = m.amount * f
            wl, ws = gmx.v2_redeem(row, gm)
            try:
                out = m.withdraw(gm if wname == "part" else None)
            except Exception as e:  # noqa: BLE001
                part.violation("C17|v2|withdraw-raised", "withdrawing held GM raised", dict(case, withdraw=wname), {"error": repr(e)[:200]})
                ctx.restore(mid)
                continue
            part.count("v2_withdrawals")
            if not closef(out.long_amount, wl) or not closef(out.short_amount, ws):
                part.violation("C17|v2|redeem-amount", "tokens redeemed differ from GM x pool value per share split by the pool's token values, less the "
                               "withdrawal fee", dict(case, withdraw=wname), {"got": [out.long_amount, out.short_amount], "rule": [wl, ws]})
            w2 = ctx.wallet()
            if single:
                if not closef(float(w2["WETH"] - w1["WETH"]), wl + ws, 1e-9):
                    part.violation("C17|v2|withdraw-bookkeeping", "wallet not credited with the redeemed amounts", dict(case, withdraw=wname))
            elif not closef(float(w2["WETH"] - w1["WETH"]), wl, 1e-9) or not closef(float(w2["USDC"] - w1["USDC"]), ws, 1e-9):
                part.violation("C17|v2|withdraw-bookkeeping", "wallet not credited with the redeemed amounts", dict(case, withdraw=wname))
            if wname == "all":
                part.count("v2_round_trips")
                v_in = lu + su
                v_out = out.long_amount * row["longPrice"] + out.short_amount * row["shortPrice"]
                dep_fee = res.fee_usd
                if granted <= dep_fee + gmx.V2_FEES["wd"] * v_out:
                    part.count("v2_round_trips_judged")
                    if v_out > v_in * (1 + 1e-12):
                        part.violation("C17|v2|round-trip-profit", "depositing and immediately withdrawing returned more value than was paid although the "
                                       "capped positive impact does not exceed the fees", case, {"paid_usd": v_in, "returned_usd": v_out, "granted_impact_usd": granted})
                else:
                    part.count("v2_round_trips_with_protocol_impact_above_fees")
                if abs(m.amount) > 1e-9 * max(want_gm, 1):
                    part.violation("C17|v2|residual", "GM left after withdrawing everything", case, {"gm": m.amount})
                bal = m.get_market_balance()
            ctx.restore(mid)
        try:
            m.withdraw(m.amount * 1.001 + 1e-9)
            part.violation("C17|v2|over-redeem", "more GM than held could be withdrawn", case, {"held_after": m.amount})
        except Exception:  # noqa: BLE001
            part.count("v2_over_redeem_rejected")
        ctx.restore(mid)
        # a request a hair above the holding: refused, or served with at most the holding - never more shares than are held
        for hair in (1e-10, 1e-12, 3e-16):
            held = m.amount
            ask = held * (1 + hair)
            if not ask > held:
                continue
            wl_all, ws_all = gmx.v2_redeem(row, held)
            try:
                o = m.withdraw(ask)
            except Exception:  # noqa: BLE001
                part.count("v2_over_redeem_rejected")
                ctx.restore(mid)
                continue
            part.count("v2_hair_over_served")
            if m.amount < 0 or o.long_amount > wl_all * (1 + 1e-13) + 1e-300 or o.short_amount > ws_all * (1 + 1e-13) + 1e-300:
                part.violation("C17|v2|over-redeem|hair", "a withdrawal slightly above the holding redeemed more GM than is held", dict(case, excess=hair),
                               {"held": held, "asked": ask, "held_after": m.amount, "paid": [o.long_amount, o.short_amount], "whole_holding_pays": [wl_all, ws_all]})
            ctx.restore(mid)
        # ---- market balance: value and token split of the holding -----------------------------------------------------------------
        bal = m.get_market_balance()
        per_share = row["poolValue"] / row["marketTokensSupply"]
        lu_pool, su_pool = row["longAmount"] * row["longPrice"], row["shortAmount"] * row["shortPrice"]
        want_nv = m.amount * per_share
        if not closef(float(bal.net_value), want_nv) or not closef(float(bal.long_amount), want_nv * lu_pool / (lu_pool + su_pool) / row["longPrice"]) \
                or not closef(float(bal.short_amount), want_nv * su_pool / (lu_pool + su_pool) / row["shortPrice"]):
            part.violation("C17|v2|balance", "GM balance (value / token split) differs from amount x pool value per share split by the pool's token values", case,
                           {"net_value": float(bal.net_value), "rule": want_nv})
        part.sample(case, every=13)
        ctx.restore(base)


def work(args):
    seed, items = args
    part = Part(seed)
    for it in items:
        if it[0] == 1:
            judge_v1(part, it[1], it[2], it[3], it[4])
        else:
            judge_v2(part, it[1], it[2])
        part.count("pool_states")
    return part.result()


def main(run: Run):
    variants = list(V1_VARIANTS) if run.thorough else ["std", "odd"]
    items = [(1, t, c, v, run.pick(3, 4)) for t in ("weth", "wavax", "usdc") for c in USDG_CLASSES for v in variants]
    items += [(2, k, i) for k in V2_KINDS for i in V2_IMPACTS]
    items = run.rotate(items)
    for r in pmap(work, [(run.seed, [it]) for it in items]):
        run.merge(r)
    c = run.counters
    cov = {
        "states": c.get("pool_states", 0), "transitions": c.get("v1_buys", 0) + c.get("v1_sells", 0) + c.get("v2_deposits", 0) + c.get("v2_withdrawals", 0),
        "traces_validated_against_impl": c.get("v1_round_trips", 0) + c.get("v2_round_trips", 0),
        "evaluations": c.get("v1_fee_evaluations", 0) + c.get("v1_buys", 0) + c.get("v1_sells", 0) + c.get("v2_deposits", 0) + c.get("v2_withdrawals", 0),
        "distinct_nontrivial": c.get("v1_buys", 0) + c.get("v2_deposits", 0),
        "rule": "v1: price / AUM variants x 3 tokens (18 / 18 / 6 decimals) x 5 USDG classes relative to the target x 4 amounts (tiny, a tenth of the gap, twice the gap = crossing, "
                "three targets) x {buy; sell all / half; over-sell; second purchase with another token; bar advance for rewards} plus all same-token buy / sell sequences up to the bound closed by a full sale; v2: 5 pool shapes x (3 impact pools + a pool without impact factors) "
                " x 10 deposit shapes x {withdraw part, all, over; balance}",
        "v1_round_trips": c.get("v1_round_trips", 0), "v1_sequences": c.get("v1_sequences", 0), "v2_round_trips_judged": c.get("v2_round_trips_judged", 0),
        "v2_round_trips_with_protocol_impact_above_fees": c.get("v2_round_trips_with_protocol_impact_above_fees", 0),
        "v2_positive_impact": c.get("v2_positive_impact", 0),
        "exhaustive": True, "completed_bound": {"pool_states": len(items)},
    }
    return run.finish(cov, ["v1 reference = Vault.getFeeBasisPoints / buyUSDG / sellUSDG / GlpManager formulas in integer arithmetic (mc/worlds/gmx.py)",
                            "v2 reference in floats like the implementation, 1e-9 relative",
                            "v2 round trips are asserted non-profitable only where the capped positive price impact does not exceed the deposit + withdrawal fees "
                            "(the protocol itself pays that impact); the rest are counted"])


def replay(run: Run, path):
    data = json.load(open(path))
    case = data["case"]
    part = Part()
    if case["version"] == 1:
        judge_v1(part, case["token"], case["usdg_class"], case.get("variant", "std"), 4)
    else:
        judge_v2(part, case["pool"], case["impact_pool"])
    for sig, v in part.violations.items():
        print("reproduced:", sig, v[0], v[2])
    print("REPLAY", "violations" if part.violations else "clean")
    return 1 if part.violations else 0
