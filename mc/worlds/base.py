"""Harness-side helpers for driving the REAL demeter objects: quiet actuator, scripted strategy, frame hashing.
Nothing in /repo is modified: tqdm / logging are silenced by rebinding names inside this process only."""
from __future__ import annotations

import hashlib
import logging
from datetime import datetime
from decimal import Decimal

import pandas as pd

import demeter  # noqa: F401  (imports the library under test from /repo's working tree)
import demeter.core.actuator as _act
from demeter import Actuator, Strategy

logging.disable(logging.CRITICAL)


class _NoBar:
    def __init__(self, *a, **k):
        pass

    def __enter__(self):
        return self

    def __exit__(self, *a):
        return False

    def set_description(self, *a, **k):
        pass

    def update(self, *a, **k):
        pass


_act.tqdm = _NoBar

T0 = datetime(2024, 1, 1, 0, 0)


def minutes(n, start=T0, freq="1min"):
    return pd.date_range(start, periods=n, freq=freq)


class Scripted(Strategy):
    """A strategy whose behaviour is a script chosen by the explorer.

    script: dict (hook, bar) -> list of callables f(strategy, snapshot); hook in
    {'initialize','before_bar','on_bar','after_bar','trigger'}.  Everything the hooks see is recorded."""

    def __init__(self, script=None, record_snapshots=False):
        super().__init__()
        self.script = script or {}
        self.trace = []
        self.notified = []
        self.errors = []
        self.snap_digests = []
        self.record_snapshots = record_snapshots
        self.final = None

    def _run(self, hook, snapshot):
        bar = snapshot.row_id if snapshot is not None else -1
        for f in self.script.get((hook, bar), []) + self.script.get((hook, "*"), []):
            try:
                f(self, snapshot)
            except (AssertionError, RuntimeError, KeyError, ZeroDivisionError) as e:  # rejected operation, caught by the strategy
                self.errors.append((hook, bar, type(e).__name__, str(e)[:120]))

    def initialize(self):
        self.trace.append(("initialize", -1))
        for f in self.script.get(("initialize", -1), []):
            f(self, None)

    def before_bar(self, snapshot):
        self.trace.append(("before_bar", snapshot.row_id, snapshot.timestamp))
        if self.record_snapshots:
            self.snap_digests.append(("before_bar", snapshot.row_id, snapshot_digest(snapshot)))
        self._run("before_bar", snapshot)

    def on_bar(self, snapshot):
        self.trace.append(("on_bar", snapshot.row_id, snapshot.timestamp))
        if self.record_snapshots:
            self.snap_digests.append(("on_bar", snapshot.row_id, snapshot_digest(snapshot)))
        self._run("on_bar", snapshot)

    def after_bar(self, snapshot):
        self.trace.append(("after_bar", snapshot.row_id, snapshot.timestamp))
        if self.record_snapshots:
            self.snap_digests.append(("after_bar", snapshot.row_id, snapshot_digest(snapshot)))
        self._run("after_bar", snapshot)

    def notify(self, action):
        self.trace.append(("notify", id(action)))
        self.notified.append(action)

    def finalize(self):
        self.trace.append(("finalize", -1))
        self.final = True


def cell_repr(v):
    if isinstance(v, float):
        return repr(v)
    if isinstance(v, Decimal):
        return "D" + str(v.normalize()) if v == v else "Dnan"
    if isinstance(v, (list, tuple)):
        return "[" + ",".join(cell_repr(x) for x in v) + "]"
    if isinstance(v, dict):
        return "{" + ",".join(f"{k}:{cell_repr(x)}" for k, x in sorted(v.items(), key=lambda kv: str(kv[0]))) + "}"
    if isinstance(v, pd.Series):
        return series_digest(v)
    if isinstance(v, pd.DataFrame):
        return frame_digest(v)
    return repr(v)


def series_digest(s: pd.Series) -> str:
    h = hashlib.sha1()
    for k, v in s.items():
        h.update(repr(k).encode())
        h.update(cell_repr(v).encode())
    return h.hexdigest()[:16]


def frame_digest(df: pd.DataFrame, ignore_columns=()) -> str:
    """Content hash of a frame including object cells (lists of orders, Decimals)."""
    h = hashlib.sha1()
    cols = [c for c in df.columns if c not in ignore_columns]
    h.update(repr(list(cols)).encode())
    h.update(repr(list(df.index.names)).encode())
    h.update(repr([str(x) for x in (df.index.dtypes if isinstance(df.index, pd.MultiIndex) else [df.index.dtype])]).encode())  # e.g. the time zone of a time index
    h.update(repr([str(df[c].dtype) for c in cols]).encode())
    for idx, row in zip(df.index, df[cols].itertuples(index=False, name=None)):
        h.update(repr(idx).encode())
        for v in row:
            h.update(cell_repr(v).encode())
    return h.hexdigest()[:16]


def snapshot_digest(snapshot) -> str:
    h = hashlib.sha1()
    h.update(repr(snapshot.timestamp).encode())
    h.update(repr(snapshot.row_id).encode())
    h.update(series_digest(snapshot.prices).encode())
    for k, v in snapshot.market_status.items():
        h.update(str(k).encode())
        h.update(cell_repr(v).encode())
    return h.hexdigest()[:16]


def make_actuator(markets, assets, strategy=None, prices=None, quote=None, interval="1min", allow_negative=False):
    """Fresh Actuator + Broker with the given (fresh) markets attached."""
    act = Actuator(allow_negative_balance=allow_negative)
    for m in markets:
        act.broker.add_market(m)
    for token, amount in assets:
        act.broker.set_balance(token, amount)
    if strategy is not None:
        act.strategy = strategy
    if prices is not None:
        if isinstance(prices, tuple):
            act.set_price(prices)
        else:
            act.set_price(prices, quote)
    act.interval = interval
    return act


def run_quiet(act):
    from mc.engine.core import quiet

    with quiet():
        act.run(print_result=False)
    return act


def D(x) -> Decimal:
    return x if isinstance(x, Decimal) else Decimal(str(x))
