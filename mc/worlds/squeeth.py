"""Squeeth + oSQTH/WETH Uniswap pool world. The Squeeth OSQTH column is derived from the pool's own price column,
and the norm factor is solved from OSQTH = nf * ETH / 1e4 in the mark = index variant (world-consistency rule)."""
from __future__ import annotations

from decimal import Decimal, localcontext
from fractions import Fraction

import pandas as pd

from demeter import MarketInfo, MarketTypeEnum, TokenInfo
from demeter.squeeth import SqueethMarket, VaultKey
from demeter.uniswap import PositionInfo, UniV3Pool

from . import uni
from .adapters_uni import DEVIANT, UniAdapter, amount
from .base import T0, minutes
from .kit import F, Op

WETH = TokenInfo("weth", 18)
OSQTH = TokenInfo("oSQTH", 18)
SPACING = 60
TICK0 = 23040  # 1.0001^-23040 ~ 0.0999 ETH per oSQTH


def pool():
    return UniV3Pool(WETH, OSQTH, 0.3, WETH)  # token0 = WETH = quote, base = oSQTH (as on mainnet)


def make_frames(kind="eq", n=10, nf_const=None, hook=None):
    """kind: 'eq' (flat ETH, mark = index), 'ne' (ramping ETH, spike in the last bars, mark != index)."""
    p = pool()
    if kind == "eq":
        ticks = [TICK0] * n
        eth = [Decimal(2000)] * n
    else:
        ticks = [TICK0 + 60 * ((i * 7) % 5 - 2) for i in range(n)]
        eth = [Decimal(2000) + Decimal(15) * i for i in range(n)]
        eth[-1] = eth[-2] * Decimal("1.04")
    raw = uni.raw_frame(ticks, 2 * 10**18, 15 * 10**18, 5 * 10**21, open_tick=ticks[0])
    if hook is not None:
        raw = hook("squni.raw", raw)
    udata = uni.prepared(raw, p)
    osqth_eth = list(udata["price"])  # ETH per oSQTH at each bar as the pool sees it
    # the market's own raw inputs: ETH price and (in the mark != index variant) the norm factor
    sraw = pd.DataFrame(index=minutes(n), data={"WETH": eth, "norm_factor": [Decimal("0.46") - Decimal("0.0003") * i for i in range(n)]})
    if hook is not None:
        sraw = hook("squeeth.raw", sraw)
    sraw = sraw.loc[udata.index[0]:udata.index[-1]]
    eth = list(sraw["WETH"])
    if kind == "eq":
        nf = [o * Decimal(10**4) / e for o, e in zip(osqth_eth, eth)]
    else:
        nf = list(sraw["norm_factor"])
    sdata = pd.DataFrame(index=udata.index, data={"norm_factor": nf, "WETH": eth, "OSQTH": osqth_eth})
    from demeter.squeeth.helper import get_price_from_data

    prices = get_price_from_data(sdata)  # repository code: WETH, OSQTH (in USD)
    prices = prices.map(lambda y: y if isinstance(y, Decimal) else Decimal(str(y)))
    prices["USD"] = Decimal(1)
    return udata, sdata, prices


def make_markets(udata, sdata):
    um = uni.make_market(pool(), udata, "squni")
    sm = SqueethMarket(MarketInfo("squeeth", MarketTypeEnum.squeeth), um, data=sdata)
    return um, sm


def ref_twap(series, ts, window_minutes=7) -> Fraction:
    """Geometric mean of the rows whose timestamp lies in the trailing seven-MINUTE window ending at ts (high precision).
    Defined by time, not by row count: on bars coarser than a minute the window holds fewer rows."""
    import pandas as pd

    ts = pd.Timestamp(ts)
    lo = ts - pd.Timedelta(minutes=window_minutes)
    vals = [v for t, v in series.items() if lo < t <= ts]
    with localcontext() as c:
        c.prec = 60
        acc = Decimal(0)
        for v in vals:
            acc += Decimal(v).ln()
        return Fraction((acc / len(vals)).exp())


class SqueethAdapter:
    kind = "squeeth"

    def __init__(self, market, uni_adapter, sdata):
        self.market = market
        self.ua = uni_adapter
        self.sdata = sdata
        self.ctx = None
        # the pool adapter asks here which of its positions are held as vault collateral (and are therefore valued in the vault, not in the pool)
        uni_adapter.holders = [lambda: [v.uni_nft_id for v in self.market.vault.values() if v.uni_nft_id is not None]]

    def raw(self):
        return {"vaults": {str(k.id): {"collateral": v.collateral_amount, "short": v.osqth_short_amount,
                                        "nft": None if v.uni_nft_id is None else f"{v.uni_nft_id.lower_tick}:{v.uni_nft_id.upper_tick}"}
                           for k, v in self.market.vault.items()}}

    def negatives(self):
        out = []
        for k, v in self.market.vault.items():
            if v.collateral_amount < 0:
                out.append(f"vault.collateral[{k.id}]")
            if v.osqth_short_amount < 0:
                out.append(f"vault.short[{k.id}]")
        return out

    # reference figures ------------------------------------------------------------------------------------
    def row(self):
        return self.sdata.loc[self.ctx.index[self.ctx.bar]]

    def twap_eth(self):
        return ref_twap(self.sdata["WETH"], self.ctx.index[self.ctx.bar])

    def twap_osqth(self):
        return ref_twap(self.sdata["OSQTH"], self.ctx.index[self.ctx.bar])

    def index_price_in_eth(self):
        return F(self.row()["norm_factor"]) * self.twap_eth() / 10**4

    def lp_amounts(self, pos: PositionInfo):
        p = self.ua.market._positions.get(pos)
        if p is None:  # the lent position no longer exists in the pool: nothing left to value
            return Fraction(0), Fraction(0)
        a0, a1 = self.ua.position_amounts(pos, p)  # token0 = WETH, token1 = oSQTH (incl. pending)
        return a0, a1

    def effective_collateral(self, v) -> Fraction:
        c = F(v.collateral_amount)
        if v.uni_nft_id is not None:
            weth, osq = self.lp_amounts(v.uni_nft_id)
            c += weth + osq * self.index_price_in_eth()
        return c

    def debt_in_eth(self, v) -> Fraction:
        return F(v.osqth_short_amount) * self.index_price_in_eth()

    def ref_value(self) -> Fraction:
        r = self.row()
        eth_p = F(r["WETH"])
        mark = F(r["OSQTH"]) * eth_p
        total = Fraction(0)
        counted = set()
        for v in self.market.vault.values():
            total += self.effective_collateral(v) * eth_p - F(v.osqth_short_amount) * mark
            if v.uni_nft_id is not None:
                # every holding is worth what it is worth ONCE: an LP position that a second vault claims as well is not there twice
                if v.uni_nft_id in counted:
                    weth, osq = self.lp_amounts(v.uni_nft_id)
                    total -= (weth + osq * self.index_price_in_eth()) * eth_p
                counted.add(v.uni_nft_id)
        return total

    # operations --------------------------------------------------------------------------------------------
    def ops(self, ctx):
        m = self.market
        n = m.market_info.name
        um = self.ua.market
        out = []
        weth_bal = lambda: ctx.broker.get_token_balance(WETH) if WETH in ctx.broker.assets else Decimal(0)
        osq_bal = lambda: ctx.broker.get_token_balance(OSQTH) if OSQTH in ctx.broker.assets else Decimal(0)
        vaults = sorted(m.vault.keys(), key=lambda k: k.id)[:2]
        free_pos = [k for k, p in sorted(um._positions.items()) if not p.transferred and p.liquidity > 0][:1]

        def frontier_mint(vk, extra_eth, pos):
            coll = Fraction(extra_eth)
            short = Fraction(0)
            if vk is not None:
                coll += self.effective_collateral(m.vault[vk])
                short = F(m.vault[vk].osqth_short_amount)
            if pos is not None:
                weth, osq = self.lp_amounts(pos)
                coll += weth + osq * self.index_price_in_eth()
            room = coll / Fraction(3, 2) / self.index_price_in_eth() - short
            return room

        targets = [("new", None)] + [(f"v{i}", vk) for i, vk in enumerate(vaults)] + [("unknown", VaultKey(99))]
        for tname, vk in targets:
            for ecls in ("one", "0.49", "0", "over"):
                for mcls in ("half", "near", "beyond", "0", "huge"):
                    for pname, pos in [("nolp", None)] + [("lp", p) for p in free_pos]:
                        default = (ecls, mcls, pname) == ("one", "half", "nolp") and tname in ("new", "v0")
                        if not default and sum(x != y for x, y in zip((ecls, mcls, pname), ("one", "half", "nolp"))) > 1 \
                                and (ecls, mcls) not in (("0.49", "near"), ("over", "beyond"), ("0", "near")) \
                                and (ecls, mcls, pname) not in (("one", "beyond", "lp"), ("0", "beyond", "lp")):  # an LP position handed in by a mint that is refused
                            continue
                        if tname == "unknown" and not (ecls, mcls, pname) == ("one", "half", "nolp"):
                            continue

                        def odm(c, vk=vk, ecls=ecls, mcls=mcls, pos=pos, tname=tname):
                            eth = {"one": Decimal(1), "0.49": Decimal("0.49"), "0": Decimal(0),
                                   "over": weth_bal() * Decimal("1.5") + 1}[ecls]
                            known = vk if (vk is not None and vk in m.vault) else None
                            room = frontier_mint(known, eth, pos)
                            room_d = Decimal(room.numerator) / Decimal(room.denominator) if room > 0 else Decimal(0)
                            mint = {"half": room_d / 2, "near": room_d * (1 - Decimal("1e-4")), "beyond": room_d * (1 + Decimal("1e-4")) + Decimal("1e-9"),
                                    "0": Decimal(0), "huge": Decimal(10) ** 9}[mcls]
                            if mcls in ("beyond", "huge") or ecls == "over":  # arguments by name (as the docs' examples give them) where a refusal is expected
                                return m.open_deposit_mint(deposit_eth_amount=eth, osqth_mint_amount=mint, vault_key=vk, uni_position=pos)
                            return m.open_deposit_mint(eth, mint, vk, pos)
                        out.append(Op(f"{n}.open_deposit_mint[{tname},{ecls},{mcls},{pname}]", odm, not default,
                                      f"{n}.open_deposit_mint", {"revalues": pname == "lp"}))
        for i, vk in enumerate(vaults):
            for cls in ("part", "over", "0"):
                out.append(Op(f"{n}.deposit[v{i},{cls}]", lambda c, vk=vk, cls=cls: (m.deposit(vk, amount(cls, weth_bal())) if cls == "part" else
                                                                                   m.deposit(vault_key=vk, eth_value=amount(cls, weth_bal()))),
                              cls != "part", f"{n}.deposit"))
            for bcls, wcls in (("part", "0"), ("0", "dust"), ("all", "all"), ("0", "part"), ("over", "over"), ("part", "part"), ("0", "all"),
                               ("all", "0")):
                def baw(c, vk=vk, bcls=bcls, wcls=wcls):
                    v = m.vault[vk]
                    if (bcls, wcls) in (("over", "over"), ("0", "all"), ("0", "part"), ("0", "dust")):  # by name
                        return m.burn_and_withdraw(vault_key=vk, osqth_burn_amount=amount(bcls, v.osqth_short_amount), withdraw_eth_amount=amount(wcls, v.collateral_amount))
                    return m.burn_and_withdraw(vk, amount(bcls, v.osqth_short_amount), amount(wcls, v.collateral_amount))
                out.append(Op(f"{n}.burn_and_withdraw[v{i},{bcls},{wcls}]", baw, (bcls, wcls) != ("part", "0"), f"{n}.burn_and_withdraw"))
            for p in free_pos:
                out.append(Op(f"{n}.deposit_lp[v{i}]", lambda c, vk=vk, p=p: m.deposit_uni_position(vk, p), False, f"{n}.deposit_uni_position",
                              {"revalues": True}))
            if m.vault[vk].uni_nft_id is not None:
                out.append(Op(f"{n}.withdraw_lp[v{i}]", lambda c, vk=vk: m.withdraw_uni_position(vk, m.vault[vk].uni_nft_id), False,
                              f"{n}.withdraw_uni_position", {"revalues": True}))
            # a position that is ALREADY collateral of a vault can not be pledged a second time
            for p in [k for k, pp in sorted(um._positions.items()) if pp.transferred and pp.liquidity > 0][:1]:
                if m.vault[vk].uni_nft_id is None:
                    out.append(Op(f"{n}.deposit_lp[v{i},already-lent]", lambda c, vk=vk, p=p: m.deposit_uni_position(vk, p), True, f"{n}.deposit_uni_position",
                                  {"revalues": True}))
            out.append(Op(f"{n}.withdraw_lp[v{i},wrong]", lambda c, vk=vk: m.withdraw_uni_position(vk, PositionInfo(-60, 60)), True,
                          f"{n}.withdraw_uni_position"))
            out.append(Op(f"{n}.deposit_lp[v{i},unknown]", lambda c, vk=vk: m.deposit_uni_position(vk, PositionInfo(-60, 60)), True,
                          f"{n}.deposit_uni_position"))
        out.append(Op(f"{n}.deposit[unknown,part]", lambda c: m.deposit(VaultKey(99), Decimal(1)), True, f"{n}.deposit"))
        out.append(Op(f"{n}.burn_and_withdraw[unknown]", lambda c: m.burn_and_withdraw(VaultKey(99), Decimal(1), Decimal(1)), True,
                      f"{n}.burn_and_withdraw"))
        for cls in ("part", "over"):
            out.append(Op(f"{n}.sell_squeeth[{cls}]", lambda c, cls=cls: m.sell_squeeth(amount(cls, osq_bal())), cls in DEVIANT,
                          f"{n}.sell_squeeth", {"swap": True, "fee_value": lambda c, ret, row: F(ret[0]) * F(row["OSQTH"])}))

            def buy(c, cls=cls):
                affordable = weth_bal() * Decimal("0.99") / self.row()["OSQTH"]
                return m.buy_squeeth(amount(cls, affordable))
            out.append(Op(f"{n}.buy_squeeth[{cls}]", buy, cls in DEVIANT, f"{n}.buy_squeeth",
                          {"swap": True, "fee_value": lambda c, ret, row: F(ret[0]) * F(row["WETH"])}))
        return out


class SlimUniAdapter(UniAdapter):
    """The oSQTH pool inside the Squeeth world: a small operation menu (the full one is explored in the uni worlds)."""
    KEEP = ("add[in,part,part]", "add[in,over,over]", "remove[p0,None,collect]", "remove[p0,part,keep]", "collect[p0,None,None]")

    def ops(self, ctx):
        name = self.market.market_info.name
        keep = {f"{name}.{k}" for k in self.KEEP}
        return [o for o in super().ops(ctx) if o.label in keep]


def allowed_gain(world, ctx, op):
    """Index-vs-mark revaluation of the oSQTH leg when an LP position moves into / out of a vault (documented weakening)."""
    if not op.meta.get("revalues"):
        return Fraction(0)
    sa = [a for a in ctx.adapters if isinstance(a, SqueethAdapter)][0]
    um = sa.ua.market
    r = sa.row()
    eth_p = F(r["WETH"])
    diff = abs(sa.index_price_in_eth() - F(r["OSQTH"])) * eth_p
    total = F(ctx.wallet().get("OSQTH", 0)) * diff
    for k, p in um._positions.items():
        _, osq = sa.ua.position_amounts(k, p)
        total += osq * diff
    return total * (1 + Fraction(1, 10**9))
