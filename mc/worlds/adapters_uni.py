"""Uniswap adapter: raw state, reference valuation (exact closed forms), operation alphabet."""
from __future__ import annotations

from decimal import Decimal, localcontext
from fractions import Fraction

from demeter.uniswap import PositionInfo

from .kit import F, Op, spied

Q96 = 1 << 96
CLASSES = {
    "0": lambda h: Decimal(0),
    "dust": lambda h: h * Decimal("1e-7"),
    "part": lambda h: h / 3,
    "all": lambda h: h,
    "all+": lambda h: h * (1 + Decimal("5e-6")),
    "all++": lambda h: h * (1 + Decimal("5e-5")),  # beyond the wallet's snap band (0.001 %) but within 0.01 % of the balance
    "all-": lambda h: h * (1 - Decimal("5e-6")),  # inside Asset.sub's snap band from below: the debit empties the wallet, a refund does not restore it
    "over": lambda h: h * Decimal("1.5") + Decimal("1e-9"),
    "huge": lambda h: Decimal(10) ** 12,
}
DEVIANT = {"0", "dust", "all+", "all++", "all-", "over", "huge"}


def _bal(c, token):
    """wallet balance; a missing wallet entry is a zero balance (so that entry presence alone never changes what an operation is asked to do)"""
    return c.broker.get_token_balance(token) if token in c.broker.assets else Decimal(0)


def amount(cls, holding):
    return CLASSES[cls](Decimal(holding))


def ref_sqrt_ratio(tick: int) -> Fraction:
    """Reference TickMath (tied to the repo's by C06): exact integer algorithm re-stated independently is not needed here;
    we use the library function, which C06 verifies exhaustively."""
    from demeter.uniswap.liquitidy_math import get_sqrt_ratio_at_tick

    return Fraction(get_sqrt_ratio_at_tick(tick))


def ref_position_amounts(liq, lower, upper, sqrt_price: Fraction, d0, d1):
    sa, sb = ref_sqrt_ratio(lower), ref_sqrt_ratio(upper)
    c = min(max(sqrt_price, sa), sb)
    a0 = Fraction(liq) * Q96 * (sb - c) / (sb * c) / 10**d0
    a1 = Fraction(liq) * (c - sa) / Q96 / 10**d1
    return a0, a1


def ref_sqrt_from_price(price, d0, d1, q0) -> Fraction:
    """sqrtPriceX96 as a real number from a base/quote price (60-digit square root)."""
    with localcontext() as c:
        c.prec = 70
        p = Decimal(price)
        p = 1 / p if q0 else p
        atomic = p / Decimal(10) ** (d0 - d1)
        s = atomic.sqrt() * Q96
        return Fraction(s)


class UniAdapter:
    kind = "uni"

    def __init__(self, market, ranges=None):
        self.market = market
        self.ctx = None
        pool = market.pool_info
        self.pool = pool
        self.ranges = ranges  # dict name -> (lower, upper) in pool ticks

    # -- observation --
    def raw(self):
        pos = {}
        for k, p in self.market._positions.items():
            pos[f"{k.lower_tick}:{k.upper_tick}"] = {"liq": p.liquidity, "p0": p.pending_amount0, "p1": p.pending_amount1,
                                                      "transferred": p.transferred}
        return {"positions": pos}

    def negatives(self):
        out = []
        for k, p in self.market._positions.items():
            if p.liquidity < 0:
                out.append(f"liquidity[{k}]")
            if p.pending_amount0 < 0 or p.pending_amount1 < 0:
                out.append(f"pending[{k}]")
        return out

    def ref_value(self, include_transferred=False) -> Fraction:
        m = self.market
        pool = self.pool
        price = m.market_status.data.price
        sp = ref_sqrt_from_price(price, pool.token0.decimal, pool.token1.decimal, pool.is_token0_quote)
        total = Fraction(0)
        # a position that another market holds as collateral is valued THERE (once); where the borrowing market is part of the world the question is
        # decided by what that market actually holds, not by the position's own flag (a flag left behind by a refused hand-over must not make the
        # position vanish from the valuation)
        holders = getattr(self, "holders", None)
        held = None if holders is None else {h for f in holders for h in f()}
        for k, p in m._positions.items():
            lent = p.transferred if held is None else k in held
            if lent and not include_transferred:
                continue
            total += self.position_value(k, p, sp, F(price))
        return total

    def position_amounts(self, k, p, sp=None):
        pool = self.pool
        if sp is None:
            sp = ref_sqrt_from_price(self.market.market_status.data.price, pool.token0.decimal, pool.token1.decimal,
                                     pool.is_token0_quote)
        a0, a1 = ref_position_amounts(p.liquidity, k.lower_tick, k.upper_tick, sp, pool.token0.decimal, pool.token1.decimal)
        return a0 + F(p.pending_amount0), a1 + F(p.pending_amount1)

    def position_value(self, k, p, sp, price: Fraction) -> Fraction:
        a0, a1 = self.position_amounts(k, p, sp)
        if self.pool.is_token0_quote:
            return a0 + a1 * price
        return a0 * price + a1

    # -- operations --
    def ops(self, ctx):
        m = self.market
        name = m.market_info.name
        base, quote = m.base_token, m.quote_token
        bal_b = ctx.broker.get_token_balance(base) if base in ctx.broker.assets else Decimal(0)
        bal_q = ctx.broker.get_token_balance(quote) if quote in ctx.broker.assets else Decimal(0)
        out = []
        pairs = [("part", "part"), ("all", "all"), ("all+", "all+"), ("over", "over"), ("part", "over"), ("over", "part"),
                 ("huge", "part"), ("part", "huge"), ("0", "0"), ("dust", "dust"), ("0", "part"), ("part", "0"), ("all-", "huge"), ("huge", "all-"),
                 ("all-", "over"), ("over", "all-"), ("all++", "all"), ("all", "all++")]
        for rname, (lo, hi) in self.ranges.items():
            for cb, cq in pairs:
                dev = cb in DEVIANT or cq in DEVIANT
                if rname != "in" and (cb, cq) not in (("part", "part"), ("over", "over"), ("part", "huge"), ("huge", "part"), ("all", "all")):
                    continue
                if rname.startswith("edge") and (cb, cq) != ("part", "part"):
                    continue

                def call(c, lo=lo, hi=hi, cb=cb, cq=cq):
                    b = _bal(c, base)
                    q = _bal(c, quote)
                    return m.add_liquidity_by_tick(lo, hi, amount(cb, b), amount(cq, q))
                lent = PositionInfo(lo, hi) in m._positions and m._positions[PositionInfo(lo, hi)].transferred
                out.append(Op(f"{name}.add[{rname},{cb},{cq}]", call, dev, f"{name}.add_liquidity_by_tick", {"revalues": lent}))
        out.append(Op(f"{name}.add[unaligned]", lambda c: m.add_liquidity_by_tick(self.ranges["in"][0] + 1, self.ranges["in"][1],
                                                                              Decimal(1), Decimal(1), trim_tick=False), True,
                      f"{name}.add_liquidity_by_tick"))
        lo, hi = self.ranges["in"]
        out.append(Op(f"{name}.add_by_price[part]", lambda c: m.add_liquidity(
            min(m.tick_to_price(lo), m.tick_to_price(hi)), max(m.tick_to_price(lo), m.tick_to_price(hi)),
            _bal(c, quote) / 3, _bal(c, base) / 3), False, f"{name}.add_liquidity"))
        out.append(Op(f"{name}.add_by_price[None]", lambda c: m.add_liquidity(
            min(m.tick_to_price(lo), m.tick_to_price(hi)), max(m.tick_to_price(lo), m.tick_to_price(hi))), True,
            f"{name}.add_liquidity"))
        keys = sorted(m._positions.keys())[:2] + [PositionInfo(lo - 1000, hi + 1000)]
        for i, k in enumerate(keys):
            exists = k in m._positions
            tag = f"p{i}" if exists else "unknown"
            for cls in ("None", "part", "over", "0"):
                for collect in (True, False):
                    if not exists and (cls != "None" or not collect):
                        continue

                    def liq_of(k=k, cls=cls):
                        return None if cls == "None" else int(amount(cls, m._positions[k].liquidity))

                    def call(c, k=k, cls=cls, collect=collect, liq_of=liq_of):
                        if not collect:
                            return m.remove_liquidity(k, liq_of(), collect=False)
                        c.spy_arg = liq_of() if k in m._positions else None
                        return spied(c, m, lambda: m.remove_liquidity(k, c.spy_arg, collect=True), names=("collect_fee",))

                    def prefix(c, log, k=k):
                        # remove_liquidity(collect=True) = burn, then collect: the burn stands once collect was entered
                        if any(e[0] == "collect_fee" for e in log):
                            m.remove_liquidity(k, c.spy_arg, collect=False)
                        for nm, a, kw, st in log:
                            if st == "completed":
                                getattr(m, nm)(*a, **kw)
                    meta = {"multi": True, "market": m, "prefix": prefix} if collect else {}
                    out.append(Op(f"{name}.remove[{tag},{cls},{'collect' if collect else 'keep'}]", call,
                                  cls in ("over", "0") or not exists, f"{name}.remove_liquidity", meta))
            for c0, c1 in (("None", "None"), ("part", "part"), ("over", "over"), ("0", "part")):
                if not exists and c0 != "None":
                    continue

                def call(c, k=k, c0=c0, c1=c1):
                    p = m._positions[k]
                    a0 = None if c0 == "None" else amount(c0, p.pending_amount0)
                    a1 = None if c1 == "None" else amount(c1, p.pending_amount1)
                    return m.collect_fee(k, a0, a1)
                out.append(Op(f"{name}.collect[{tag},{c0},{c1}]", call, c0 in ("over", "0") or not exists, f"{name}.collect_fee"))
        for cls in ("part", "all", "all+", "over", "dust", "0"):
            def sell(c, cls=cls):
                return m.sell(amount(cls, _bal(c, base)))
            out.append(Op(f"{name}.sell[{cls}]", sell, cls in DEVIANT, f"{name}.sell",
                          {"swap": True, "fee_value": lambda c, ret, row: F(ret[0]) * F(row[base.name])}))

            def buy(c, cls=cls):
                price = m.market_status.data.price
                affordable = _bal(c, quote) * (1 - m.pool_info.fee_rate) / price
                return m.buy(amount(cls, affordable))
            out.append(Op(f"{name}.buy[{cls}]", buy, cls in DEVIANT, f"{name}.buy",
                          {"swap": True, "fee_value": lambda c, ret, row: F(ret[0]) * F(row[quote.name])}))
        for cls in ("part", "over"):
            out.append(Op(f"{name}.swap[base->quote,{cls}]", lambda c, cls=cls: m.swap(amount(cls, _bal(c, base)), base, quote),
                          cls in DEVIANT, f"{name}.swap", {"swap": True, "fee_value": lambda c, ret, row: F(ret[0]) * F(row[base.name])}))
            out.append(Op(f"{name}.swap[quote->base,{cls}]", lambda c, cls=cls: m.swap(amount(cls, _bal(c, quote)), quote, base),
                          cls in DEVIANT, f"{name}.swap", {"swap": True, "fee_value": lambda c, ret, row: F(ret[0]) * F(row[quote.name])}))
        out.append(Op(f"{name}.swap[same]", lambda c: m.swap(Decimal(1), base, base), True, f"{name}.swap", {"swap": True}))
        out.append(Op(f"{name}.even_rebalance", lambda c: m.even_rebalance(), False, f"{name}.even_rebalance", {"swap": True}))
        for rname, (rlo, rhi) in self.ranges.items():
            for cls in ("None", "part", "over"):
                if rname.startswith("edge") and cls != "part":
                    continue

                def byval(c, rlo=rlo, rhi=rhi, cls=cls):
                    price = m.market_status.data.price
                    total = _bal(c, quote) + _bal(c, base) * price
                    return m.add_liquidity_by_value(rlo, rhi, None if cls == "None" else amount(cls, total))
                out.append(Op(f"{name}.add_by_value[{rname},{cls}]", lambda c, f=byval: spied(c, m, lambda: f(c)), cls != "part",
                              f"{name}.add_liquidity_by_value", {"swap": True, "multi": True, "market": m}))
        out.append(Op(f"{name}.remove_all", lambda c: spied(c, m, lambda: m.remove_all_liquidity()), False,
                      f"{name}.remove_all_liquidity", {"multi": True, "market": m}))
        return out
