"""Deribit option world: hourly multi-index frame built in memory (shape as load_deribit_option_data delivers it),
books with bids <= mark <= asks and marks on the 1e-6 grid the valuation rounds to."""
from __future__ import annotations

import copy
from datetime import datetime, timedelta
from decimal import ROUND_HALF_UP, Decimal
from fractions import Fraction

import pandas as pd

from demeter import MarketInfo, MarketTypeEnum
from demeter.deribit import DeribitOptionMarket

from .adapters_uni import DEVIANT, amount
from .base import T0
from .kit import F, Op

ETH = DeribitOptionMarket.ETH
FAR = datetime(2024, 3, 29, 8, 0)


def instrument(name, kind, strike, expiry, mark, underlying, asks, bids, state="open", delta=0.5, gamma=0.003):
    return {"instrument_name": name, "state": state, "type": kind, "strike_price": strike, "t": pd.Timedelta(days=20),
            "expiry_time": pd.Timestamp(expiry), "vega": 1.4, "theta": -1.0, "rho": 0.6, "gamma": gamma, "delta": delta,
            "underlying_price": underlying, "settlement_price": None, "mark_price": mark, "mark_iv": 31.0, "last_price": mark,
            "interest_rate": 0, "bid_iv": 28.0, "best_bid_price": bids[0][0] if bids else 0, "best_bid_amount": bids[0][1] if bids else 0,
            "ask_iv": 33.0, "best_ask_price": asks[0][0] if asks else 0, "best_ask_amount": asks[0][1] if asks else 0,
            "asks": copy.deepcopy(asks), "bids": copy.deepcopy(bids)}


def frame(hours):
    """hours: list of (timestamp, [instrument dicts])."""
    rows = []
    for ts, instrs in hours:
        for ins in instrs:
            r = dict(ins)
            r["time"] = pd.Timestamp(ts)
            rows.append(r)
    df = pd.DataFrame(rows)
    df = df.set_index(["time", "instrument_name"]).sort_index()
    return df


STD_BOOKS = {
    "C1": dict(kind="CALL", strike=2000, mark=0.0495, asks=[[0.05, 5], [0.0505, 2], [0.051, 10]], bids=[[0.049, 3], [0.0485, 6]]),
    "P1": dict(kind="PUT", strike=1900, mark=0.0295, asks=[[0.03, 1]], bids=[]),
    # binary-exact prices: the second level of either side sits EXACTLY on mark x 2 / mark / 2, i.e. on a price cap of 2
    "D1": dict(kind="CALL", strike=2100, mark=0.03125, asks=[[0.032, 6], [0.0625, 9]], bids=[[0.03, 6], [0.015625, 9]], fixed=True),
}


def std_frame(n_hours=3, underlying=(2000.0, 2010.0, 1995.0), start=T0, books=None, expiry=FAR, mark_drift=0.0005):
    books = books or STD_BOOKS
    hours = []
    for h in range(n_hours):
        ts = start + timedelta(hours=h)
        instrs = []
        for name, b in books.items():
            shift = 0.0 if b.get("fixed") else round(mark_drift * h, 6)
            asks = [[round(p + shift, 6), a] for p, a in b["asks"]]
            bids = [[round(p + shift, 6), a] for p, a in b["bids"]]
            instrs.append(instrument(name, b["kind"], b["strike"], b.get("expiry", expiry), round(b["mark"] + shift, 6),
                                     underlying[h % len(underlying)] * b.get("basis", 1.0), asks, bids))  # basis: this expiry is quoted against ITS OWN underlying (future)
        hours.append((ts, instrs))
    return frame(hours)


def make_market(data, name="deribit"):
    return DeribitOptionMarket(MarketInfo(name, MarketTypeEnum.deribit_option), ETH, data=data)


def price_frame(data, n_minutes=None, start=None):
    """ETH price in USD per bar (hourly or minutely), taken from the underlying price of the books."""
    from demeter.deribit.helper import get_price_from_data

    p = get_price_from_data(data)  # repository code (minutely, expanded to the end of the day)
    p = p.map(lambda y: Decimal(str(y)))
    p["USD"] = Decimal(1)
    return p


def r6(x) -> Decimal:
    return Decimal(str(x)).quantize(Decimal("1e-6"), rounding=ROUND_HALF_UP)


class DeribitAdapter:
    kind = "deribit"

    def __init__(self, market, data):
        self.market = market
        self.data = data
        self.ctx = None

    def book(self):
        d = self.market.market_status.data
        if d is None or len(d.index) == 0 or "asks" not in d.columns:
            return {}
        return {name: {"asks": [[float(p), float(a)] for p, a in row.asks], "bids": [[float(p), float(a)] for p, a in row.bids]}
                for name, row in d.iterrows()}

    def raw(self):
        m = self.market
        return {"cash": m.balance,
                "positions": {k: {"amount": p.amount, "avg_buy": Decimal(p.avg_buy_price), "buy_amount": p.buy_amount,
                                  "avg_sell": Decimal(p.avg_sell_price), "sell_amount": p.sell_amount}
                              for k, p in m.positions.items()},
                "book": self.book()}

    def negatives(self):
        m = self.market
        out = ["cash"] if m.balance < 0 else []
        out += [f"option[{k}]" for k, p in m.positions.items() if p.amount < 0]
        for name, b in self.book().items():
            for side in ("asks", "bids"):
                if any(a < -1e-9 for _, a in b[side]):
                    out.append(f"book[{name}.{side}]")
        return out

    def hour_rows(self):
        ts = pd.Timestamp(self.ctx.index[self.ctx.bar]).floor("1h")
        if ts in self.data.index.get_level_values(0):
            return self.data.loc[ts]
        return None

    def ref_value(self) -> Fraction:
        m = self.market
        total = F(m.balance)
        rows = self.hour_rows()
        for k, p in m.positions.items():
            if rows is not None and k in rows.index:
                total += F(p.amount) * F(r6(rows.loc[k].mark_price))
        return total

    def ops(self, ctx):
        m = self.market
        n = m.market_info.name
        out = []
        wallet = lambda: ctx.broker.get_token_balance(ETH) if ETH in ctx.broker.assets else Decimal(0)
        for cls in ("part", "all", "over", "0", "dust"):
            out.append(Op(f"{n}.deposit[{cls}]", lambda c, cls=cls: m.deposit(amount(cls, wallet())), cls in DEVIANT, f"{n}.deposit"))
            out.append(Op(f"{n}.withdraw[{cls}]", lambda c, cls=cls: m.withdraw(amount(cls, m.balance)), cls in DEVIANT, f"{n}.withdraw"))

        def premium_and_fee(ins, n):
            lv = m.market_status.data.loc[ins].asks
            left, prem = Decimal(n), Decimal(0)
            for p, a in lv:
                take = min(left, Decimal(str(a)))
                prem += take * Decimal(str(p))
                left -= take
                if left <= 0:
                    break
            return prem, min(Decimal("0.0003") * n, Decimal("0.125") * prem)

        def to_premium(c):
            # leave exactly the premium of two C1 contracts plus half their fee in the option account: the purchase is payable without the fee only
            prem, fee = premium_and_fee("C1", 2)
            return m.withdraw(m.balance - (prem + fee / 2))
        if "C1" in m.market_status.data.index and m.balance > 1:
            out.append(Op(f"{n}.withdraw[to-premium]", to_premium, False, f"{n}.withdraw"))
        names = ["C1", "P1"]
        for ins in names + ["NOPE"]:
            for amt in ("1", "2", "6", "100", "0.4", "2.4"):
                for pricing in ("market", "L0", "L1", "miss", "usd0", "cap1.01", "cap3"):
                    default = (amt, pricing) == ("1", "market") and ins == "C1"
                    if ins == "NOPE" and (amt, pricing) != ("1", "market"):
                        continue
                    if ins == "P1" and (amt not in ("1", "2") or pricing not in ("market", "L0")):
                        continue
                    if amt in ("100", "0.4", "2.4") and pricing != "market":
                        continue
                    if amt == "6" and pricing not in ("market", "L0", "cap1.01"):
                        continue

                    def kw(side, ins=ins, pricing=pricing):
                        d = m.market_status.data
                        k = {}
                        if ins in d.index:
                            lv = d.loc[ins].asks if side == "buy" else d.loc[ins].bids
                        else:
                            lv = []
                        if pricing in ("L0", "L1", "usd0"):
                            i = 1 if pricing == "L1" else 0
                            p = lv[i][0] if len(lv) > i else 0.123
                            if pricing == "usd0":
                                k["price_in_usd"] = Decimal(str(p)) * Decimal(str(d.loc[ins].underlying_price)) if ins in d.index else Decimal(1)
                            else:
                                k["price_in_token"] = Decimal(str(p))
                        elif pricing == "miss":
                            k["price_in_token"] = Decimal("0.0777")
                        elif pricing.startswith("cap"):
                            k["max_mark_price_multiple"] = Decimal(pricing[3:])
                        return k
                    out.append(Op(f"{n}.buy[{ins},{amt},{pricing}]",
                                  lambda c, ins=ins, amt=amt, kw=kw: m.buy(ins, Decimal(amt), **kw("buy")), not default, f"{n}.buy"))
                    if pricing in ("market", "L0", "miss", "cap1.01", "cap3"):
                        out.append(Op(f"{n}.sell[{ins},{amt},{pricing}]",
                                      lambda c, ins=ins, amt=amt, kw=kw: m.sell(ins, Decimal(amt), **kw("sell")),
                                      not ((amt, pricing) == ("1", "market") and ins == "C1"), f"{n}.sell"))
        if "D1" in m.market_status.data.index:
            for side in ("buy", "sell"):
                for amt in ("6", "10"):
                    for pricing in ("market", "cap2"):
                        def call(c, side=side, amt=amt, pricing=pricing):
                            kw = {"max_mark_price_multiple": Decimal(2)} if pricing == "cap2" else {}
                            return (m.buy if side == "buy" else m.sell)("D1", Decimal(amt), **kw)
                        out.append(Op(f"{n}.{side}[D1,{amt},{pricing}]", call, True, f"{n}.{side}"))
        return out
