"""Names -> world constructors (constructed lazily inside worker processes)."""
from . import catalog

WORLDS = {
    "uni(q0)": lambda: catalog.uni_world("q0"),
    "uni(q1)": lambda: catalog.uni_world("q1"),
    "uni(xq)": lambda: catalog.uni_xq_world(),
    "aave": lambda: catalog.aave_world(),
    "deribit": lambda: catalog.deribit_world(),
    "squeeth(eq)": lambda: catalog.squeeth_world("eq"),
    "squeeth(ne)": lambda: catalog.squeeth_world("ne"),
}
