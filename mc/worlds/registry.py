"""Names -> world constructors (constructed lazily inside worker processes)."""
from . import catalog

WORLDS = {
    "uni(q0)": lambda: catalog.uni_world("q0"),
    "uni(q1)": lambda: catalog.uni_world("q1"),
    "uni(xq)": lambda: catalog.uni_xq_world(),
    "aave": lambda: catalog.aave_world(),
    "deribit": lambda: catalog.deribit_world(),
    "gmx1": lambda: catalog.gmx1_world(),
    "gmx2(mild,small)": lambda: catalog.gmx2_world(kind="mild", impact="small"),
    "gmx2(strong,large)": lambda: catalog.gmx2_world(kind="strong", impact="large"),
    "gmx2(mild,small,single-token)": lambda: catalog.gmx2_world(kind="mild", impact="small", single_token=True),
    "gmx2(mild,small,synthetic-index)": lambda: catalog.gmx2_world(kind="mild", impact="small", synthetic=True),  # index token is not a pool token
    "gmx2(mild,small,no-short-token-entry)": lambda: catalog.gmx2_world(kind="mild", impact="small", long_only_wallet=True),
    "squeeth(eq)": lambda: catalog.squeeth_world("eq"),
    "squeeth(ne)": lambda: catalog.squeeth_world("ne"),
    "squeeth(eq,no-osqth-entry)": lambda: catalog.squeeth_world("eq", with_osqth=False),
    "deribit+uni(closed)": lambda: catalog.deribit_uni_world(2, frozen_bar=1),
}

# worlds with moving data over several bars / several markets in one account (bar-by-bar properties: C01, C02, C05)
PATH_WORLDS = {
    "aave(path)": lambda: catalog.aave_path_world(),
    "uni+aave": lambda: catalog.uni_aave_world(),
    "deribit+uni": lambda: catalog.deribit_uni_world(),
    "deribit(many)+uni": lambda: catalog.deribit_uni_world(2, extra_instruments=70),  # 146 option rows against 61 minute bars
    "deribit(cut)": lambda: catalog.deribit_world(cut_from=6),  # three hours cut out of a six-hour download (for C05's bar-index question)
}
