"""Actuator driver: the world's fresh real markets are attached to a REAL Actuator / Broker and driven by Actuator.run with a
scripted strategy whose script (which operation label in which hook of which bar) is the explorer's choice sequence."""
from __future__ import annotations

from decimal import Decimal

from . import catalog, kit
from .base import Scripted, make_actuator, run_quiet


class Run:
    """One real backtest of a world with a script. script: list of (bar, hook, label)."""

    def __init__(self, world, script=(), interval="1min", observe=None, prices=None, record_snapshots=False, look_first=False):
        self.world = world
        self.look_first = look_first
        catalog.AUTO_BEGIN[0] = False
        try:
            ctx = world.build()
        finally:
            catalog.AUTO_BEGIN[0] = True
        self.ctx = ctx
        quote = ctx.broker.quote_token
        assets = [(k, v.balance) for k, v in ctx.broker.assets.items()]
        self.outcomes = []
        self.observations = []
        by_slot = {}
        for bar, hook, label in script:
            by_slot.setdefault((hook, bar), []).append(label)
        hooks = {}

        def make(hook, bar, labels):
            def f(strategy, snapshot):
                ctx.bar = snapshot.row_id if snapshot is not None else 0
                ctx.__dict__.pop("_row_cache", None)
                if self.look_first and snapshot is not None and (ctx.bar + len(labels[0])) % 2 == 0:
                    # a strategy that LOOKS before it trades: asking every market (and the account) what it is worth changes nothing
                    for a in ctx.adapters:
                        a.market.get_market_balance()
                    strategy.broker.get_account_status(snapshot.prices)
                for lab in labels:
                    ops = {o.label: o for o in world.alphabet(ctx)}
                    if lab not in ops:
                        self.outcomes.append((bar, hook, lab, "not-enabled", None))
                        continue
                    out = kit.apply(ctx, ops[lab])
                    self.outcomes.append((bar, hook, lab, "ok" if out.ok else "rejected", out.error))
            return f
        for (hook, bar), labels in by_slot.items():
            hooks.setdefault((hook, bar), []).append(make(hook, bar, labels))
        if observe is not None:
            def obs(strategy, snapshot):
                ctx.bar = snapshot.row_id
                ctx.__dict__.pop("_row_cache", None)
                self.observations.append(observe(ctx, snapshot))
            hooks.setdefault(("after_bar", "*"), []).append(obs)
        self.strategy = Scripted(hooks, record_snapshots=record_snapshots)
        px = prices if prices is not None else world.frames["prices"]
        px = px.drop(columns=["USD"]) if "USD" in px.columns else px
        self.price_input = px  # the very frame object handed to Actuator.set_price (C02 digests it before and after the run)
        from .base import frame_digest

        self.price_input_digest = frame_digest(px)
        self.act = make_actuator([a.market for a in ctx.adapters], assets, self.strategy, px, quote, interval=interval,
                                 allow_negative=getattr(world, "allow_negative", False))
        ctx.broker = self.act.broker
        ctx.prices = self.act.token_prices if hasattr(self.act, "token_prices") else px
        self.error = None

    def go(self):
        try:
            run_quiet(self.act)
        except Exception as e:  # noqa: BLE001
            self.error = f"{type(e).__name__}: {e}"[:300]
        self.ctx.actions = self.act.actions
        return self
