"""Uniswap v3 worlds: synthetic pool histories built in memory; the repo's own preparation code
(_add_statistic_column, get_price_from_data) is applied inside the loop so it is verified too."""
from __future__ import annotations

from decimal import Decimal

import numpy as np
import pandas as pd

from demeter import MarketInfo, TokenInfo
from demeter.uniswap import UniLpMarket, UniV3Pool
from demeter.uniswap.helper import _add_statistic_column

from .base import T0, minutes

USDC = TokenInfo("USDC", 6)
WETH = TokenInfo("WETH", 18)
WBTC = TokenInfo("WBTC", 8)
OSQTH = TokenInfo("OSQTH", 18)


def pool_q0(fee=0.05, t0=USDC, t1=WETH):
    """token0 is the quote token (USDC/WETH quoted in USDC; ticks ~ +200000 for 6/18 decimals)."""
    return UniV3Pool(t0, t1, fee, t0)


def pool_q1(fee=0.05, t0=WETH, t1=USDC):
    """mirror: token1 is the quote token (WETH/USDC quoted in USDC; ticks ~ -200000)."""
    return UniV3Pool(t0, t1, fee, t1)


def raw_frame(close_ticks, in0, in1, liquidity, open_tick=None, start=T0, tick_dtype="float64", freq="1min"):
    """Raw columns as demeter-fetch delivers them (after load: ticks float64, amounts Decimal)."""
    n = len(close_ticks)
    idx = minutes(n, start, freq)
    if not isinstance(in0, (list, tuple)):
        in0 = [in0] * n
    if not isinstance(in1, (list, tuple)):
        in1 = [in1] * n
    if not isinstance(liquidity, (list, tuple)):
        liquidity = [liquidity] * n
    opens = [open_tick if open_tick is not None else close_ticks[0]] + list(close_ticks[:-1])
    df = pd.DataFrame(index=idx)
    df["netAmount0"] = [Decimal(0)] * n
    df["netAmount1"] = [Decimal(0)] * n
    df["closeTick"] = np.array(close_ticks, dtype=tick_dtype)
    df["openTick"] = np.array(opens, dtype=tick_dtype)
    df["lowestTick"] = np.array([min(a, b) for a, b in zip(opens, close_ticks)], dtype=tick_dtype)
    df["highestTick"] = np.array([max(a, b) for a, b in zip(opens, close_ticks)], dtype=tick_dtype)
    df["inAmount0"] = [Decimal(int(x)) for x in in0]
    df["inAmount1"] = [Decimal(int(x)) for x in in1]
    df["currentLiquidity"] = [Decimal(int(x)) for x in liquidity]
    return df


def prepared(raw: pd.DataFrame, pool: UniV3Pool) -> pd.DataFrame:
    df = raw.copy()
    _add_statistic_column(df, pool)  # repository code: close, price (= previous close), volume0/1
    return df


def make_market(pool: UniV3Pool, data: pd.DataFrame | None = None, name="uni") -> UniLpMarket:
    m = UniLpMarket(MarketInfo(name), pool)
    if data is not None:
        m.data = data
    return m


def mirror_tick(t):
    return -t
