"""Aave v3 world: synthetic per-token index paths, generated risk-parameter CSV, adapter (raw state, reference
valuation and risk figures in Fractions, operation alphabet)."""
from __future__ import annotations

import os
import tempfile
from decimal import Decimal
from fractions import Fraction

import pandas as pd

from demeter import MarketInfo, MarketTypeEnum, TokenInfo
from demeter.aave import AaveV3Market

from .adapters_uni import DEVIANT, amount
from .base import T0, minutes
from .kit import F, Op

WETH = TokenInfo("WETH", 18)
USDC = TokenInfo("USDC", 6)
DAI = TokenInfo("DAI", 18)
USDT = TokenInfo("USDT", 6)  # not usable as collateral
AAVE = TokenInfo("AAVE", 18)  # not borrowable
WBTC = TokenInfo("WBTC", 8)  # high liquidation threshold / high bonus
LINK = TokenInfo("LINK", 18)  # usable as collateral with a max-LTV of 0 (counts towards the health factor, gives no borrowing power)
TOKENS = [WETH, USDC, DAI, USDT, AAVE, WBTC, LINK]

#        symbol  collateral LTV   LT     bonus  borrowable
RISK = {
    "WETH": (True, 8000, 8250, 10500, True),
    "USDC": (True, 7700, 8000, 10450, True),
    "DAI": (True, 7500, 7800, 10400, True),
    "USDT": (False, 0, 0, 10450, True),
    "AAVE": (True, 6600, 7300, 10750, False),
    "WBTC": (True, 9000, 9300, 11000, True),
    "LINK": (True, 0, 6500, 10700, True),
}
PRICES = {"WETH": Decimal(2000), "USDC": Decimal(1), "DAI": Decimal("1.001"), "USDT": Decimal("0.999"), "AAVE": Decimal(90),
          "WBTC": Decimal(30000), "LINK": Decimal(15)}

_RISK_PATH = [None]


def risk_csv_path():
    """Written once per process into the scratch cwd (created and consumed by the same command)."""
    if _RISK_PATH[0] and os.path.exists(_RISK_PATH[0]):
        return _RISK_PATH[0]
    cols = ["underlyingAsset", "name", "symbol", "decimals", "baseLTVasCollateral", "reserveLiquidationThreshold",
            "reserveLiquidationBonus", "reserveFactor", "usageAsCollateralEnabled", "borrowingEnabled", "optimalUsageRatio",
            "variableRateSlope1", "variableRateSlope2", "baseVariableBorrowRate", "supplyCap", "borrowCap", "borrowableInIsolation",
            "flashLoanEnabled"]
    rows = []
    for sym, (coll, ltv, lt, bonus, borrow) in RISK.items():
        name = "USD Coin" if sym == "USDC" else sym
        rows.append(["0x0", name, sym, 18, ltv, lt, bonus, 1000, coll, borrow, 9 * 10**26, 9 * 10**25, 4 * 10**26, 0, 10**9, 10**9,
                     True, True])
    path = _risk_file_name()  # the decoy of this process had ITS parameters in a file of this very name before (see _decoy_once)
    pd.DataFrame(rows, columns=cols).to_csv(path, index=False)
    _RISK_PATH[0] = path
    _editor_once(path)
    return path


def _risk_file_name():
    return os.path.join(os.getcwd(), f"verif-aave-risk-{os.getpid()}.csv")


_EDITOR = [False]


def _editor_once(path):
    """A what-if study on a throw-away market built from the SAME parameter file: its risk parameters are edited in place (that market's own table) and the
    market is discarded. Markets built from the file afterwards have the file's parameters."""
    if _EDITOR[0]:
        return
    _EDITOR[0] = True
    m = AaveV3Market(MarketInfo("aave-what-if", MarketTypeEnum.aave_v3), path, list(TOKENS))
    rp = m.risk_parameters
    for col in ("liqThereshold", "LTV", "liqBonus", "reserveLiquidationThreshold", "baseLTVasCollateral", "reserveLiquidationBonus"):
        if col in rp.columns:
            rp[col] = rp[col] * type(rp[col].iloc[0])("0.5")


def risk(sym):
    coll, ltv, lt, bonus, borrow = RISK[sym]
    return {"collateral": coll, "ltv": Fraction(ltv, 10000), "lt": Fraction(lt, 10000), "bonus": Fraction(bonus - 10000, 10000),
            "borrow": borrow}


def index_frame(liq_steps, bor_steps, n, start=T0, rates=("0.031", "0.047")):
    """Per-token frame; indices are products of the given per-bar growth factors (non-decreasing)."""
    idx = minutes(n, start)
    li, bi = Decimal("1.02"), Decimal("1.05")
    L, B = [], []
    for i in range(n):
        li = li * Decimal(str(liq_steps[i % len(liq_steps)]))
        bi = bi * Decimal(str(bor_steps[i % len(bor_steps)]))
        L.append(li)
        B.append(bi)
    return pd.DataFrame(index=idx, data={"liquidity_rate": [Decimal(rates[0])] * n, "stable_borrow_rate": [Decimal("0.06")] * n,
                                         "variable_borrow_rate": [Decimal(rates[1])] * n, "liquidity_index": L,
                                         "variable_borrow_index": B})


STEP_SETS = {
    "WETH": ([1, "1.0005", 1, "1.013"], [1, "1.0007", "1.0007", "1.02"]),
    "USDC": (["1.0005", 1, "1.013", 1], ["1.013", 1, "1.0005", 1]),
    "DAI": ([1, 1, "1.0005", "1.0005"], ["1.0005", "1.013", 1, 1]),
    "USDT": (["1.013", "1.0005"], [1, "1.0005"]),
    "AAVE": ([1, "1.0005"], [1, 1]),
    "WBTC": (["1.0005", "1.0005"], ["1.0007", 1]),
    "LINK": ([1, "1.0007"], ["1.0005", 1]),
}


def make_data(n=4, steps=None):
    steps = steps or STEP_SETS
    frames = {}
    for i, t in enumerate(TOKENS):
        ls, bs = steps[t.name]
        frames[t.name] = index_frame(ls, bs, n, rates=(f"0.0{11 + 7 * i}", f"0.0{23 + 9 * i}"))
    # columns are identified by NAME: one token's history comes with its columns in another order
    frames["DAI"] = frames["DAI"][list(frames["DAI"].columns)[::-1]]
    return frames


_DECOY = [False]


def _decoy_once():
    """Before the first market of a process is built, ANOTHER Aave market with OTHER risk parameters for the same symbols (another chain, say) is
    built, used and thrown away: whatever the library remembers outside a market instance (class- or module-level memos keyed by symbol) must not
    reach the markets under test. Costs a few milliseconds once per worker process."""
    if _DECOY[0]:
        return
    _DECOY[0] = True
    from demeter._typing import USD

    from .kit import Ctx

    cols = ["underlyingAsset", "name", "symbol", "decimals", "baseLTVasCollateral", "reserveLiquidationThreshold", "reserveLiquidationBonus", "reserveFactor",
            "usageAsCollateralEnabled", "borrowingEnabled", "optimalUsageRatio", "variableRateSlope1", "variableRateSlope2", "baseVariableBorrowRate", "supplyCap",
            "borrowCap", "borrowableInIsolation", "flashLoanEnabled"]
    rows = []
    for sym, (coll, ltv, lt, bonus, borrow) in RISK.items():
        rows.append(["0x0", "USD Coin" if sym == "USDC" else sym, sym, 18, max(ltv - 1700, 0) if ltv else 5000, max(lt - 1300, 0) if lt else 5500, bonus + 400, 1000, True, True,
                     9 * 10**26, 9 * 10**25, 4 * 10**26, 0, 10**9, 10**9, True, True])
    path = _risk_file_name()  # the same file name the real parameters are written to afterwards: the file's CONTENT changes between two constructions
    pd.DataFrame(rows, columns=cols).to_csv(path, index=False)
    try:
        frames = make_data(2)
        m = AaveV3Market(MarketInfo("aave-other-chain", MarketTypeEnum.aave_v3), path, list(TOKENS))
        for t in TOKENS:
            m.set_token_data(t, frames[t.name])
        prices = price_frame(2)
        ctx = Ctx("aave-decoy", prices, USD, [AaveAdapter(m, frames)], [(t, 10**6) for t in TOKENS], prices.index)
        ctx.begin_bar(0)
        for t in TOKENS:
            m.supply(t, Decimal(100), True)
        m.borrow(DAI, Decimal(300))
        m.borrow(USDC, Decimal(200))
        _ = (m.health_factor, m.max_ltv, m.liquidation_threshold, m.ltv, m.supplies, m.borrows, m.supplies_value, m.borrows_value, m.collateral_value,
             m.get_market_balance(), [m.get_max_withdraw_amount(t) for t in TOKENS], m.get_max_borrow_amount(WETH), m.supply_apy, m.borrow_apy)
        m.repay(DAI, Decimal(10))
        m.withdraw(WETH, Decimal(1))
        ctx.advance()
        _ = (m.health_factor, m.get_market_balance())
    finally:
        os.unlink(path)


def make_market(frames, name="aave", tokens=None):
    _decoy_once()
    # only the first two tokens are DECLARED to the market (tokens=); the others have data and are used all the same (the library's own fixtures declare
    # tokens=[weth] and borrow DAI): what a market does with a token does not depend on whether it was announced
    m = AaveV3Market(MarketInfo(name, MarketTypeEnum.aave_v3), risk_csv_path(), list(tokens or TOKENS)[:2])
    for t in (tokens or TOKENS):
        m.set_token_data(t, frames[t.name])
    return m


def price_frame(n, path=None, start=T0):
    idx = minutes(n, start)
    data = {}
    for sym, p in PRICES.items():
        mult = (path or {}).get(sym, [1] * n)
        data[sym] = [p * Decimal(str(mult[i])) for i in range(n)]
    df = pd.DataFrame(index=idx, data=data)
    df["USD"] = Decimal(1)
    return df


class AaveAdapter:
    kind = "aave"

    def __init__(self, market, frames, tokens=None):
        self.market = market
        self.frames = frames
        self.ctx = None
        self.tokens = tokens or list(TOKENS)

    # -- observation -------------------------------------------------------------------------------------
    def raw(self):
        m = self.market
        return {"supplies": {k.name: {"base": v.base_amount, "collateral": v.collateral} for k, v in m._supplies.items()},
                "borrows": {k.name: {"base": v.base_amount} for k, v in m._borrows.items()}}

    def negatives(self):
        m = self.market
        return [f"supply[{k.name}]" for k, v in m._supplies.items() if v.base_amount < 0] + \
               [f"borrow[{k.name}]" for k, v in m._borrows.items() if v.base_amount < 0]

    def indices(self, sym):
        key = (sym, self.ctx.bar)
        c = self.__dict__.setdefault("_idx_cache", {})
        if key not in c:
            row = self.frames[sym].loc[self.ctx.index[self.ctx.bar]]
            c[key] = (F(row["liquidity_index"]), F(row["variable_borrow_index"]))
        return c[key]

    def ref_positions(self):
        """(supplies {sym: (amount, value, collateral)}, borrows {sym: (amount, value)}) in exact arithmetic."""
        m = self.market
        row = self.ctx.price_row()
        sup, bor = {}, {}
        for k, v in m._supplies.items():
            li, _ = self.indices(k.name)
            amt = F(v.base_amount) * li
            sup[k.name] = (amt, amt * F(row[k.name]), v.collateral)
        for k, v in m._borrows.items():
            _, bi = self.indices(k.name)
            amt = F(v.base_amount) * bi
            bor[k.name] = (amt, amt * F(row[k.name]))
        return sup, bor

    def ref_value(self) -> Fraction:
        sup, bor = self.ref_positions()
        return sum((v[1] for v in sup.values()), Fraction(0)) - sum((v[1] for v in bor.values()), Fraction(0))

    def ref_risk(self):
        sup, bor = self.ref_positions()
        coll = {s: v[1] for s, v in sup.items() if v[2]}
        tc = sum(coll.values(), Fraction(0))
        tb = sum((v[1] for v in bor.values()), Fraction(0))
        ts = sum((v[1] for v in sup.values()), Fraction(0))
        lt_sum = sum((v * risk(s)["lt"] for s, v in coll.items()), Fraction(0))
        ltv_sum = sum((v * risk(s)["ltv"] for s, v in coll.items()), Fraction(0))
        return {
            "collateral": tc, "debt": tb, "supply": ts,
            "hf": (lt_sum / tb) if tb != 0 else None,  # None = infinite
            "max_ltv": (ltv_sum / tc) if tc != 0 else None,
            "lt": (lt_sum / tc) if tc != 0 else None,
            "ltv": (tb / ts) if ts != 0 else None,
            "lt_sum": lt_sum, "ltv_sum": ltv_sum,
        }

    # -- operations ---------------------------------------------------------------------------------------
    def ops(self, ctx):
        m = self.market
        n = m.market_info.name
        out = []
        bal = lambda t: ctx.broker.get_token_balance(t) if t in ctx.broker.assets else Decimal(0)
        for t in (WETH, USDC, USDT, AAVE):
            for cls in ("part", "all", "all+", "over", "0", "dust"):
                for coll in (True, False):
                    existing = m._supplies.get(t)
                    mismatch = existing is not None and existing.collateral != coll
                    bad_flag = coll and not RISK[t.name][0]
                    if cls != "part" and (coll is False and t != USDT):
                        continue
                    if t in (USDT, AAVE) and cls not in ("part", "over"):
                        continue
                    dev = cls in DEVIANT or mismatch or bad_flag or (cls == "all")
                    out.append(Op(f"{n}.supply[{t.name},{cls},{'C' if coll else 'N'}]",
                                  lambda c, t=t, cls=cls, coll=coll: m.supply(t, amount(cls, bal(t)), coll), dev, f"{n}.supply"))
        # a small stable supply next to big collateral, and a debt in an EXPENSIVE token: repaying that debt out of the small supply is capped by what the
        # supply is worth (the amounts of the two tokens are not comparable as numbers)
        if USDC not in m._supplies:
            out.append(Op(f"{n}.supply[USDC,small,C]", lambda c: m.supply(USDC, Decimal(100), True), True, f"{n}.supply"))
        if WBTC not in m._supplies:
            out.append(Op(f"{n}.supply[WBTC,part,C]", lambda c: m.supply(WBTC, bal(WBTC) / 3, True), True, f"{n}.supply"))
        if m._supplies and WETH not in m._borrows:
            def bw_weth(c):
                r = self.ref_risk()
                room = r["ltv_sum"] - r["debt"]
                room = Decimal(room.numerator) / Decimal(room.denominator) / c.price_row()["WETH"]
                return m.borrow(WETH, max(room, Decimal(0)) / 3 if room > 0 else Decimal(1))
            out.append(Op(f"{n}.borrow[WETH,third]", bw_weth, True, f"{n}.borrow"))
        if WETH in m._borrows and USDC in m._supplies:
            for cls in ("part", "None"):
                def rp_cheap(c, cls=cls):
                    debt = m._borrows[WETH].base_amount * m._market_status.data["WETH"].variable_borrow_index
                    return m.repay(WETH, None if cls == "None" else debt / 3, repay_with_collateral=True, repay_collateral_token=USDC)
                out.append(Op(f"{n}.repay[WETH,{cls},USDC]", rp_cheap, True, f"{n}.repay"))
        for t in list(m._supplies.keys())[:3] + [DAI]:
            known = t in m._supplies
            for cls in ("part", "None", "all", "over", "0", "dust"):
                if not known and cls != "part":
                    continue

                def wd(c, t=t, cls=cls):
                    if cls == "None":
                        return m.withdraw(t)
                    held = m._supplies[t].base_amount * m._market_status.data[t.name].liquidity_index \
                        if t in m._supplies else Decimal(1)
                    return m.withdraw(t, amount(cls, held))
                out.append(Op(f"{n}.withdraw[{t.name if known else 'unknown'},{cls}]", wd, cls != "part" or not known, f"{n}.withdraw"))
            if known:
                out.append(Op(f"{n}.withdraw[{t.name},max]", lambda c, t=t: m.withdraw(t, m.get_max_withdraw_amount(t)), True,
                              f"{n}.withdraw"))
                for flag in (True, False):
                    out.append(Op(f"{n}.change_collateral[{t.name},{'C' if flag else 'N'}]",
                                  lambda c, t=t, flag=flag: m.change_collateral(t, flag), flag != m._supplies[t].collateral and True,
                                  f"{n}.change_collateral"))
        for t in (USDC, DAI, AAVE):
            for cls in ("third", "near", "beyond", "None", "huge", "0"):
                if t == AAVE and cls != "third":
                    continue

                def bw(c, t=t, cls=cls):
                    if cls == "None":
                        return m.borrow(t)
                    if cls == "huge":
                        return m.borrow(t, Decimal(10) ** 12)
                    if cls == "0":
                        return m.borrow(t, Decimal(0))
                    r = self.ref_risk()
                    room = r["ltv_sum"] - r["debt"]
                    room = Decimal(room.numerator) / Decimal(room.denominator) / c.price_row()[t.name]
                    f = {"third": Decimal(1) / 3, "near": Decimal("0.999"), "beyond": Decimal("1.001")}[cls]
                    return m.borrow(t, max(room, Decimal(0)) * f if room > 0 else Decimal(1))
                out.append(Op(f"{n}.borrow[{t.name},{cls}]", bw, cls != "third" or t == AAVE, f"{n}.borrow"))
        for t in list(m._borrows.keys())[:2] + [WETH]:
            known = t in m._borrows
            for cls in ("part", "None", "all", "over", "0"):
                for mode in ("cash", "self", "WETH"):
                    if not known and (cls != "part" or mode != "cash"):
                        continue
                    if mode != "cash" and cls in ("0",):
                        continue

                    def rp(c, t=t, cls=cls, mode=mode):
                        if t in m._borrows:
                            debt = m._borrows[t].base_amount * m._market_status.data[t.name].variable_borrow_index
                        else:
                            debt = Decimal(1)
                        amt = None if cls == "None" else amount(cls, debt)
                        if mode == "cash":
                            return m.repay(t, amt)
                        return m.repay(t, amt, repay_with_collateral=True, repay_collateral_token=None if mode == "self" else WETH)
                    out.append(Op(f"{n}.repay[{t.name if known else 'unknown'},{cls},{mode}]", rp,
                                  not (cls == "part" and mode == "cash") or not known, f"{n}.repay"))
        return out
