"""Sibling markets: other instances of the same market classes, alive in the same process and used in alternation with the markets under test.

A market object owns its state.  Whatever a check explores, a lending market over the same token symbols (other indices, other prices, other amounts), a GLP
market over another token basket and a pool of the same pair in the other orientation and fee tier are built once per process (own Broker, own data) and
are operated ("churned") whenever the world under test begins a bar and after every operation the explorer applies to it: their status is set for the same
timestamp, their views are read, a small operation is made.  On a library in which instances share nothing this changes nothing for the markets under
test; state that leaks between instances (a cache or registry declared at class level, a memo keyed by token name / timestamp / price only) is picked up
by the oracles of the checks as what it is: a wrong figure in the market under test.

The siblings are never restored by the explorer's snapshot / restore (they are not part of the state that is explored), nothing of them enters a canonical
state, and a failure inside a sibling is not a verdict about anything (it is swallowed and counted)."""
from __future__ import annotations

from decimal import Decimal

from demeter import Broker, MarketStatus

_S = {"built": False, "items": [], "busy": False, "calls": 0, "errors": 0}
ENABLED = [True]


def _build():
    import pandas as pd
    from demeter import MarketInfo, MarketTypeEnum, TokenInfo
    from demeter.uniswap import PositionInfo, UniV3Pool

    from . import aave, gmx, uni
    from .base import minutes

    items = []
    n = 12
    # ---- lending market over the same symbols: other index paths, other prices ------------------------------------------------------------
    try:
        frames = aave.make_data(n)
        frames = {k: v.copy() for k, v in frames.items()}
        for k, f in frames.items():
            for col in ("liquidity_index", "variable_borrow_index"):
                f[col] = [x * Decimal("1.37") for x in f[col]]
        am = aave.make_market(frames, name="aave-sibling")
        ab = Broker(record_action_callback=lambda a: None)
        ab.add_market(am)
        for t, a in ((aave.WETH, 50), (aave.USDC, 90000), (aave.DAI, 90000)):
            ab.set_balance(t, Decimal(a))
        aprices = aave.price_frame(n).map(lambda x: x * Decimal("0.77") if isinstance(x, Decimal) else x)
        aprices["USD"] = Decimal(1)
        am.set_market_status(MarketStatus(aprices.index[0], None), aprices.iloc[0])
        am.supply(aave.WETH, Decimal("3.21"), True)
        am.supply(aave.DAI, Decimal("512.5"), True)
        am.borrow(aave.USDC, Decimal("123.456"))

        def churn_aave(ts):
            ts = ts if ts in aprices.index else aprices.index[1]
            am.set_market_status(MarketStatus(ts, None), aprices.loc[ts])
            _ = (am.supplies, am.borrows)
            if _S["calls"] % 8 == 0:
                _ = am.health_factor
                am.get_market_balance()
                am.supply(aave.DAI, Decimal("0.5"), True)
        items.append(("aave", churn_aave))
    except Exception:  # noqa: BLE001
        _S["errors"] += 1
    # ---- GLP market over another basket ----------------------------------------------------------------------------------------------------
    try:
        wbtc = TokenInfo("wbtc", 8)
        rows = []
        for i in range(n):
            r = gmx.v1_row({"weth": 1.4, "wavax": 0.7, "usdc": 1.0}, aum_usd=13_000_017 + 9_000 * i, supply_glp=11_218_773 + 50_001 * i)
            r.update({k.replace("wavax_", "wbtc_"): v for k, v in r.items() if k.startswith("wavax_")})  # (the reward token's price column stays)
            r = {k: v for k, v in r.items() if not k.startswith("usdc_")}
            rows.append(r)
        gdata = pd.DataFrame(rows, index=minutes(n))
        from demeter.gmx import GmxMarket

        gm = GmxMarket(MarketInfo("gmx1-sibling", MarketTypeEnum.gmx_v1), tokens=[gmx.WETH, wbtc], data=gdata)
        gb = Broker(record_action_callback=lambda a: None)
        gb.add_market(gm)
        gb.set_balance(gmx.WETH, Decimal(500))
        gb.set_balance(wbtc, Decimal(50))
        gprices = pd.DataFrame(index=gdata.index, data={"WETH": [Decimal(2600)] * n, "WBTC": [Decimal(29)] * n, "USD": [Decimal(1)] * n})
        gm.set_market_status(MarketStatus(gdata.index[0], None), gprices.iloc[0])
        gm.buy_glp(gmx.WETH, Decimal(2))

        def churn_gmx(ts):
            ts = ts if ts in gdata.index else gdata.index[1]
            gm.set_market_status(MarketStatus(ts, None), gprices.loc[ts])
            gm.get_fee_basis_points(gmx.WETH, Decimal(10**21), True)
            gm.get_market_balance()
        items.append(("gmx1", churn_gmx))
    except Exception:  # noqa: BLE001
        _S["errors"] += 1
    # ---- pools of the same pair: the other orientation, another fee tier (tick spacing 60) -------------------------------------------------
    try:
        for nm, pool, sign in (("uni-sibling-q1", UniV3Pool(uni.WETH, uni.USDC, 0.3, uni.USDC), -1), ("uni-sibling-q0", UniV3Pool(uni.USDC, uni.WETH, 0.3, uni.USDC), 1)):
            closes = [sign * (200000 + 13 * ((5 * i) % 7)) for i in range(n)]
            raw = uni.raw_frame(closes, 3 * 10**9 if sign > 0 else 2 * 10**18, 2 * 10**18 if sign > 0 else 3 * 10**9, 7 * 10**15, open_tick=closes[0])
            data = uni.prepared(raw, pool)
            um = uni.make_market(pool, data, nm)
            ub = Broker(record_action_callback=lambda a: None)
            ub.add_market(um)
            ub.set_balance(uni.USDC, Decimal(50000))
            ub.set_balance(uni.WETH, Decimal(25))
            price_df, _ = um.get_price_from_data()
            uprices = price_df.map(lambda y: Decimal(str(y)))
            uprices["USD"] = Decimal(1)
            um.set_market_status(MarketStatus(data.index[0], None), uprices.iloc[0])
            lo, hi = (199500, 200520) if sign > 0 else (-200520, -199500)
            um.add_liquidity_by_tick(lo, hi, Decimal(2), Decimal(4000))

            def churn_uni(ts, um=um, data=data, uprices=uprices, lo=lo, hi=hi):
                ts = ts if ts in data.index else data.index[1]
                hint = _S.get("hint") or {}
                if hint.get("uni_price") is not None:
                    # the sibling pool trades at exactly the price (the very same Decimal) the pool under test is at: same pair, other orientation / fee tier
                    row = data.loc[ts].copy()
                    row["price"] = hint["uni_price"]
                    um.set_market_status(MarketStatus(ts, row), uprices.loc[ts])
                else:
                    um.set_market_status(MarketStatus(ts, None), uprices.loc[ts])
                p = um.market_status.data.price
                um.price_to_tick(p)
                um.price_to_tick(Decimal("1850.5"))
                um.price_to_tick(Decimal("2000"))
                um.tick_to_price(lo)
                um.get_market_balance()
                um.get_position_status(PositionInfo(lo, hi)) if hasattr(um, "get_position_status") else None
                um.update()
            items.append((nm, churn_uni))
    except Exception:  # noqa: BLE001
        _S["errors"] += 1
    _S["items"] = items
    _S["built"] = True


KIND_OF = {"aave": ("aave",), "gmx1": ("gmx1",), "uni": ("uni-sibling-q1", "uni-sibling-q0"), "squeeth": ("uni-sibling-q1",)}


def churn(ts=None, kinds=None, stride=1, hint=None):
    """Operate the siblings of the given market kinds once (status for timestamp ts where they have it, reads, a small write); with stride k only every k-th
    call does anything. Re-entrant calls and failures are ignored."""
    if not ENABLED[0] or _S["busy"]:
        return
    _S["asked"] = _S.get("asked", 0) + 1
    if stride > 1 and _S["asked"] % stride:
        return
    wanted = None if kinds is None else {n for k in kinds for n in KIND_OF.get(k, ())}
    if wanted is not None and not wanted:
        return
    _S["busy"] = True
    try:
        if not _S["built"]:
            _build()
        _S["calls"] += 1
        _S["hint"] = hint
        for name, fn in _S["items"]:
            if wanted is not None and name not in wanted:
                continue
            try:
                fn(ts)
            except Exception:  # noqa: BLE001
                _S["errors"] += 1
    finally:
        _S["busy"] = False
