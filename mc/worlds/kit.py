"""Direct driver: a context of real Broker + real Market objects, bar advances with the call sequence the
actuator makes, generic snapshot/restore of every mutable attribute, canonical raw state, and an
explicit-state explorer over operation labels with a depth bound and a deviation bound."""
from __future__ import annotations

import copy
import hashlib
from decimal import Decimal, localcontext
from fractions import Fraction

import pandas as pd

from demeter import Broker, MarketStatus

from . import siblings

# attributes that are references to shared / immutable things and must not be deep-copied
_SHARED = {"_data", "broker", "logger", "_record_action_callback", "_risk_parameters", "_squeeth_uni_pool", "open",
           "_pool", "pool", "pool_config", "token_config", "_market_info", "_network"}


def F(x) -> Fraction:
    if isinstance(x, Fraction):
        return x
    if isinstance(x, float):
        return Fraction(x)
    if isinstance(x, Decimal):
        return Fraction(x)
    return Fraction(x)


def dec_norm(x):
    """Canonical string of a numeric for hashing (28 significant digits)."""
    if isinstance(x, float):
        return repr(round(x, 12))
    if isinstance(x, int):
        return str(x)
    if isinstance(x, Decimal):
        if not x.is_finite():
            return str(x)
        with localcontext() as c:
            c.prec = 28
            y = +x
        return str(y.normalize() if y != 0 else Decimal(0))
    return repr(x)


class Ctx:
    """A world instance: fresh real objects + shared read-only input frames."""

    def __init__(self, name, prices: pd.DataFrame, quote_token, adapters, assets, index=None):
        self.name = name
        self.prices = prices
        self.actions = []
        self.clock = [None]
        self.broker = Broker(record_action_callback=self._record)
        self.broker.quote_token = quote_token
        self.adapters = adapters
        for a in adapters:
            self.broker.add_market(a.market)
            a.ctx = self
        for token, amount in assets:
            self.broker.set_balance(token, amount if isinstance(amount, Decimal) else Decimal(str(amount)))
        self.index = index if index is not None else prices.index
        self.bar = None

    def _record(self, action):
        # what Actuator._record_action_list does, minus logging
        action.timestamp = self.clock[0]
        action.set_type()
        self.actions.append(action)

    # -- bar handling (the call sequence of Actuator.run; bound to the code by C05) ----------------
    def begin_bar(self, i):
        ts = self.index[i]
        self.bar = i
        self.clock[0] = ts.to_pydatetime()
        row = self.prices.loc[ts]
        for a in self.adapters:
            a.market.set_market_status(MarketStatus(ts, None), row)
        siblings.churn(ts, {a.kind for a in self.adapters}, hint=self._sibling_hint())  # other instances of the same market classes live in this process and are used in alternation (siblings.py)

    def _sibling_hint(self):
        for a in self.adapters:
            if a.kind == "uni":
                try:
                    return {"uni_price": a.market.market_status.data.price}
                except Exception:  # noqa: BLE001
                    return None
        return None

    def end_bar(self):
        ts = self.index[self.bar]
        row = self.prices.loc[ts]
        for a in self.adapters:
            if a.market.has_update:
                a.market.set_market_status(MarketStatus(ts, None), row)
        for a in self.adapters:
            a.market.update()

    def advance(self):
        """End the current bar and begin the next one (what the actuator does between two bars)."""
        if self.bar + 1 >= len(self.index):
            raise RuntimeError("no more bars")
        self.end_bar()
        self.begin_bar(self.bar + 1)

    def price_row(self):
        c = self.__dict__.setdefault("_row_cache", {})
        if self.bar not in c:
            c[self.bar] = self.prices.loc[self.index[self.bar]]
        return c[self.bar]

    # -- observation ----------------------------------------------------------------------------------
    def wallet(self):
        return {k.name: v.balance for k, v in self.broker.assets.items()}

    def raw(self):
        """Every raw field a property names, as plain comparable data."""
        # a wallet entry with balance 0 is the same holding as no entry
        d = {"wallet": {k: v for k, v in sorted(self.wallet().items()) if v != 0}}
        for a in self.adapters:
            d[a.market.market_info.name] = a.raw()
        d["actions"] = len(self.actions)
        return d

    def canon(self):
        h = hashlib.sha1()
        r = self.raw()
        r.pop("actions", None)
        r["bar"] = self.bar
        if getattr(self, "canon_model", False):
            r["model"] = self.model
        h.update(_canon_repr(r).encode())
        return h.hexdigest()[:20]

    def impl_net_value(self) -> Decimal:
        return self.broker.get_account_status(self.price_row()).net_value

    def ref_net_value(self) -> Fraction:
        row = self.price_row()
        total = Fraction(0)
        for k, v in self.wallet().items():
            total += F(v) * F(row[k])
        for a in self.adapters:
            v = a.ref_value()
            q = a.market.quote_token
            if q != self.broker.quote_token:
                v = v * F(row[q.name])
            total += v
        return total

    def negatives(self):
        out = [f"wallet.{k}" for k, v in self.wallet().items() if v < 0]
        for a in self.adapters:
            out += [f"{a.market.market_info.name}.{x}" for x in a.negatives()]
        return out

    # -- snapshot / restore ------------------------------------------------------------------------------
    def snapshot(self):
        memo = {}
        snap = {"assets": {k: v.balance for k, v in self.broker.assets.items()}, "n_actions": len(self.actions), "markets": [],
                "bar": self.bar, "clock": self.clock[0], "model": copy.deepcopy(getattr(self, "model", None))}
        for a in self.adapters:
            m = a.market
            d = {}
            for k, v in vars(m).items():
                if k in _SHARED or callable(v) and not hasattr(v, "__dict__"):
                    continue
                d[k] = copy.deepcopy(v, memo)
            snap["markets"].append(d)
        return snap

    def restore(self, snap):
        memo = {}
        from demeter import Asset

        assets = self.broker._assets
        for k in list(assets.data.keys()):
            if k not in snap["assets"]:
                del assets.data[k]
                if hasattr(assets, k.name):
                    delattr(assets, k.name)
        for k, bal in snap["assets"].items():
            if k in assets.data:
                assets.data[k].balance = bal
            else:
                assets[k] = Asset(k, bal)
        del self.actions[snap["n_actions"]:]
        self.bar = snap["bar"]
        self.clock[0] = snap["clock"]
        if snap["model"] is not None or hasattr(self, "model"):
            self.model = copy.deepcopy(snap["model"])
        for a, d in zip(self.adapters, snap["markets"]):
            m = a.market
            for k in list(vars(m).keys()):
                if k not in d and k not in _SHARED and not callable(vars(m)[k]):
                    delattr(m, k)
            for k, v in d.items():
                setattr(m, k, copy.deepcopy(v, memo))


def _canon_repr(x):
    if isinstance(x, dict):
        return "{" + ",".join(f"{k}:{_canon_repr(v)}" for k, v in sorted(x.items(), key=lambda kv: str(kv[0]))) + "}"
    if isinstance(x, (list, tuple)):
        return "[" + ",".join(_canon_repr(v) for v in x) + "]"
    if isinstance(x, (Decimal, float, int)) and not isinstance(x, bool):
        return dec_norm(x)
    return repr(x)


class Op:
    """One operation label of an alphabet. `call(ctx)` resolves its argument class against the current state and
    performs the REAL call. deviation=True marks boundary / oversized / expected-to-be-rejected arguments."""
    __slots__ = ("label", "call", "deviation", "kind", "meta")

    def __init__(self, label, call, deviation=False, kind="", meta=None):
        self.label = label
        self.call = call
        self.deviation = deviation
        self.kind = kind
        self.meta = meta or {}


class Outcome:
    __slots__ = ("ok", "error", "ret")

    def __init__(self, ok, error=None, ret=None):
        self.ok = ok
        self.error = error
        self.ret = ret


REJECTIONS = (AssertionError, RuntimeError, KeyError, ZeroDivisionError, ValueError, TypeError, AttributeError, IndexError,
              ArithmeticError)


def apply(ctx: Ctx, op: Op) -> Outcome:
    try:
        ret = op.call(ctx)
        return Outcome(True, None, ret)
    except REJECTIONS as e:
        return Outcome(False, (type(e).__name__, str(getattr(e, "message", e))[:100]), None)
    finally:
        siblings.churn(ctx.index[ctx.bar] if ctx.bar is not None else None, {a.kind for a in ctx.adapters}, stride=5, hint=ctx._sibling_hint())


def explore(build, alphabet, depth, max_dev, on_transition, on_state=None, part=None, roots=((),), dedup=True, first=None):
    """DFS over label sequences. build() -> fresh Ctx at a frozen bar; alphabet(ctx) -> [Op] (labels stable).
    on_transition(ctx, history, op, pre_raw, pre_snap, outcome) is called after every real call.
    Budget-aware dedup: a canonical state is re-expanded only with a strictly better (depth, deviation) budget."""
    stats = {"states": 0, "transitions": 0, "accepted": 0, "rejected": 0, "max_depth": 0, "complete": 0}
    seen = {}
    outcomes = set()

    for root in roots:
        ctx = build()
        ops_by_label = None
        hist = []
        dev_used = 0
        for lab in root:
            ops_by_label = {o.label: o for o in alphabet(ctx)}
            o = ops_by_label[lab]
            apply(ctx, o)
            hist.append(lab)
            # a seeded root only PLACES the search in a non-initial state: its own labels do not use up the deviation budget

        def rec(d, dev):
            key = ctx.canon()
            budget = (depth - d, max_dev - dev)
            if dedup:
                prev = seen.get(key)
                if prev is not None and any(p[0] >= budget[0] and p[1] >= budget[1] for p in prev):
                    return
                seen.setdefault(key, []).append(budget)
            else:
                seen[key] = True
            stats["states"] = len(seen)
            if on_state is not None:
                on_state(ctx, list(hist))
            if d >= depth:
                stats["complete"] += 1
                return
            snap = ctx.snapshot()
            pre_raw = ctx.raw()
            for op in alphabet(ctx):
                if op.deviation and dev >= max_dev:
                    continue
                if first is not None and d == len(root) and op.label not in first:
                    continue
                out = apply(ctx, op)
                stats["transitions"] += 1
                stats["accepted" if out.ok else "rejected"] += 1
                outcomes.add((op.kind, out.ok, out.error[1][:40] if out.error else ""))
                hist.append(op.label)
                stats["max_depth"] = max(stats["max_depth"], len(hist))
                on_transition(ctx, hist, op, pre_raw, snap, out)
                rec(d + 1, dev + (1 if op.deviation else 0))
                hist.pop()
                ctx.restore(snap)

        rec(len(hist), dev_used)
    stats["distinct_outcomes"] = len(outcomes)
    return stats


def replay_history(build, alphabet, history):
    """Rebuild a fresh world and re-execute one history with no explorer involved."""
    ctx = build()
    outs = []
    for lab in history:
        ops = {o.label: o for o in alphabet(ctx)}
        if lab not in ops:
            raise RuntimeError(f"label {lab} not enabled during replay (nondeterminism)")
        outs.append(apply(ctx, ops[lab]))
    return ctx, outs


CONSTITUENTS = ("swap", "buy", "sell", "add_liquidity_by_tick", "add_liquidity", "remove_liquidity", "collect_fee")


def spied(ctx, market, fn, names=CONSTITUENTS):
    """Run fn() with the market's constituent public methods wrapped (instance attributes), recording the top-level
    constituent calls and whether each completed. Used to judge multi-step helpers per constituent transaction."""
    log = []
    depth = [0]
    originals = {}

    def wrap(name, real):
        def w(*a, **k):
            top = depth[0] == 0
            if top:
                entry = [name, a, dict(k), "started"]
                log.append(entry)
            depth[0] += 1
            try:
                r = real(*a, **k)
            finally:
                depth[0] -= 1
            if top:
                entry[3] = "completed"
            return r
        return w

    for n in names:
        if hasattr(market, n):
            originals[n] = getattr(market, n)
            setattr(market, n, wrap(n, originals[n]))
    try:
        return fn()
    finally:
        for n in originals:
            try:
                delattr(market, n)
            except AttributeError:
                pass
        ctx.spy_log = log
