"""GMX v1 (GLP) and v2 (GM) worlds with internally consistent rows, adapters and exact reference calculators."""
from __future__ import annotations

from decimal import Decimal
from fractions import Fraction

import pandas as pd

from demeter import MarketInfo, MarketTypeEnum, TokenInfo
from demeter.gmx import GmxMarket

from .adapters_uni import DEVIANT, amount
from .base import T0, minutes
from .kit import F, Op

P30 = 10**30
WETH = TokenInfo("weth", 18)
WAVAX = TokenInfo("wavax", 18)
USDC = TokenInfo("usdc", 6)
V1_TOKENS = [WETH, WAVAX, USDC]
V1_PRICE = {"weth": 2600, "wavax": 29, "usdc": 1}
V1_WEIGHT = {"weth": 20000, "wavax": 10000, "usdc": 46000}


def v1_row(usdg_class, aum_usd=21_919_427, supply_glp=23_218_773, interval=789480314626619.0):
    """usdg_class: dict token -> multiple of its target amount (0.2 far below ... 3 far above)."""
    total_w = sum(V1_WEIGHT.values())
    usdg_total = 21_590_378 * 10**18
    row = {"glp": Decimal(supply_glp * 10**18), "aum": Decimal(aum_usd) * Decimal(P30), "usdg": float(usdg_total), "interval": interval}
    row["glp_price"] = (Decimal(aum_usd) * P30 / P30) / (Decimal(supply_glp * 10**18) / Decimal(10**18))
    for t in V1_TOKENS:
        n = t.name.lower()
        price = Decimal(V1_PRICE[n]) * P30
        row[f"{n}_price"] = price if n in ("weth", "wavax") else float(price)  # dtypes as load_gmx_v1_data delivers them
        row[f"{n}_weight"] = V1_WEIGHT[n]
        target = usdg_total * V1_WEIGHT[n] // total_w
        row[f"{n}_usdg"] = float(int(target * usdg_class.get(n, 1)))
    return row


def v1_frame(n=3, usdg_class=None):
    usdg_class = usdg_class or {"weth": 0.6, "wavax": 1.5, "usdc": 1.0}
    idx = minutes(n)
    rows = []
    for i in range(n):
        r = v1_row(usdg_class, aum_usd=21_919_427 + 10_000 * i)
        rows.append(r)
    df = pd.DataFrame(rows, index=idx)
    return df


def v1_prices(df):
    from demeter.gmx.helper import get_price_from_data

    p = get_price_from_data(df)  # repository code: WETH, WAVAX
    p = p.map(lambda y: y if isinstance(y, Decimal) else Decimal(str(y)))
    p["USDC"] = Decimal(1)
    p["USD"] = Decimal(1)
    return p


def make_v1(df, name="gmx1"):
    m = GmxMarket(MarketInfo(name, MarketTypeEnum.gmx_v1), tokens=list(V1_TOKENS), data=df)
    m.add_token(V1_TOKENS[0])  # registering a token of the basket once more changes nothing: the basket is a set
    return m


# ---- exact reference of the Vault / GlpManager rules (integer arithmetic, as the contracts) -------------------
def v1_fee_bps(row, token, usdg_delta: int, increase: bool, base=25, tax=60) -> int:
    n = token.name.lower()
    initial = int(row[f"{n}_usdg"])
    nxt = initial + usdg_delta if increase else max(initial - usdg_delta, 0)
    total_w = sum(int(row[f"{t.name.lower()}_weight"]) for t in V1_TOKENS)
    target = int(row[f"{n}_weight"]) * int(row["usdg"]) // total_w
    if target == 0:
        return base
    idiff = abs(initial - target)
    ndiff = abs(nxt - target)
    if ndiff < idiff:
        rebate = tax * idiff // target
        return 0 if rebate > base else base - rebate
    avg = (idiff + ndiff) // 2
    if avg > target:
        avg = target
    return base + tax * avg // target


def v1_mint(row, token, amount_tokens: Fraction, bps=None):
    """GLP minted for `amount_tokens` of token: (glp tokens as Fraction, fee bps). bps: charge this fee instead of the rule's
    (the property allows the fee to be within one basis point of the rule; the amounts then follow from the fee charged)."""
    n = token.name.lower()
    price = int(row[f"{n}_price"])
    wei = int(amount_tokens * 10**token.decimal)
    usdg_gross = wei * price // P30 * 10**18 // 10**token.decimal
    if bps is None:
        bps = v1_fee_bps(row, token, usdg_gross, True)
    after_fee = int(wei * (10000 - Fraction(bps)) / 10000)
    usdg = after_fee * price // P30 * 10**18 // 10**token.decimal
    aum_in_usdg = int(Decimal(row["aum"]) / Decimal(10**12))
    supply = int(row["glp"])
    return Fraction(usdg * supply // aum_in_usdg, 10**18), bps


def v1_redeem(row, token, glp_tokens: Fraction, bps=None):
    n = token.name.lower()
    price = int(row[f"{n}_price"])
    aum_in_usdg = int(Decimal(row["aum"]) / Decimal(10**12))
    supply = int(row["glp"])
    usdg = int(glp_tokens * 10**18) * aum_in_usdg // supply
    redemption = usdg * P30 // price * 10**token.decimal // 10**18  # token wei
    if bps is None:
        bps = v1_fee_bps(row, token, usdg, False)
    out = int(redemption * (10000 - Fraction(bps)) / 10000)
    return Fraction(out, 10**token.decimal), bps


class Gmx1Adapter:
    kind = "gmx1"

    def __init__(self, market, data):
        self.market = market
        self.data = data
        self.ctx = None

    def raw(self):
        return {"glp": self.market.glp_amount, "reward": self.market.reward}

    def negatives(self):
        return [k for k, v in self.raw().items() if v < 0]

    def row(self):
        return self.data.loc[self.ctx.index[self.ctx.bar]]

    def ref_value(self) -> Fraction:
        r = self.row()
        m = self.market
        glp_price = Fraction(int(Decimal(r["aum"])), P30) / Fraction(int(r["glp"]), 10**18)
        return F(m.glp_amount) * glp_price + F(m.reward) * Fraction(int(r["wavax_price"]), P30)

    def ops(self, ctx):
        m = self.market
        n = m.market_info.name
        out = []
        bal = lambda t: ctx.broker.get_token_balance(t) if t in ctx.broker.assets else Decimal(0)
        for t in V1_TOKENS:
            for cls in ("part", "all", "over", "0", "dust"):
                if t == USDC and cls not in ("part",):
                    continue
                out.append(Op(f"{n}.buy_glp[{t.name},{cls}]", lambda c, t=t, cls=cls: m.buy_glp(t, amount(cls, bal(t))),
                              cls in DEVIANT or t != WETH, f"{n}.buy_glp"))
            if t == WETH:
                # an amount given as a float (the signature allows it): whatever the market makes of it, a refusal leaves wallet and holding alone
                out.append(Op(f"{n}.buy_glp[{t.name},float]", lambda c, t=t: m.buy_glp(t, float(bal(t)) / 4), True, f"{n}.buy_glp"))
                out.append(Op(f"{n}.sell_glp[{t.name},float]", lambda c, t=t: m.sell_glp(t, float(m.glp_amount) / 4), True, f"{n}.sell_glp"))
            for cls in ("part", "all", "over", "0", "dust"):
                out.append(Op(f"{n}.sell_glp[{t.name},{cls}]", lambda c, t=t, cls=cls: m.sell_glp(t, amount(cls, m.glp_amount)),
                              cls in DEVIANT or t == WAVAX, f"{n}.sell_glp"))
        # a payout token the pool does not list (nothing is known about its price / weight in the pool data): refused, the GLP stays where it is
        nope = TokenInfo("NOPE", 18)
        out.append(Op(f"{n}.sell_glp[NOPE,part]", lambda c: m.sell_glp(nope, amount("part", m.glp_amount)), True, f"{n}.sell_glp"))
        out.append(Op(f"{n}.buy_glp[NOPE,part]", lambda c: m.buy_glp(nope, Decimal(1)), True, f"{n}.buy_glp"))
        return out


# =================================================== v2 ========================================================
V2_LONG = TokenInfo("WETH", 18)
V2_SHORT = TokenInfo("USDC", 6)


V2_INDEX_SYNTH = TokenInfo("DOGE", 8)  # synthetic markets (DOGE/USD [WETH-USDC]): the index token is neither pool token, indexPrice != longPrice


def v2_row(kind="balanced", impact="small", long_price=2600.0, short_price=1.0, index_price=None):
    long_usd = 50_000_000.0
    short_usd = {"balanced": 50_000_000.0, "mild": 46_000_000.0, "strong": 20_000_000.0, "strong_short": 90_000_000.0}[kind]
    pool_value = (long_usd + short_usd) * 0.97  # pnl / fees make pool value differ from the token sum
    return {
        "longAmount": long_usd / long_price, "shortAmount": short_usd / short_price,
        "virtualSwapInventoryLong": long_usd / long_price * 1.3, "virtualSwapInventoryShort": short_usd / short_price * 0.9,
        "poolValue": pool_value, "marketTokensSupply": pool_value / 1.37,
        "impactPoolAmount": {"0": 0.0, "small": 0.002, "large": 500.0}[impact],
        "longPrice": long_price, "shortPrice": short_price, "indexPrice": long_price if index_price is None else index_price,
    }


def v2_frame(n=3, kind="balanced", impact="small", single_token=False, synthetic=False):
    rows = [v2_row(kind, impact, 2600.0 + 5 * i, short_price=(2600.0 + 5 * i) if single_token else 1.0,
                   index_price=(0.0815 + 0.0007 * i) if synthetic else None) for i in range(n)]
    return pd.DataFrame(rows, index=minutes(n))


def make_v2(df, name="gmx2", single_token=False, synthetic=False):
    from demeter.gmx import GmxV2Market
    from demeter.gmx._typing2 import GmxV2Pool

    short = V2_LONG if single_token else V2_SHORT  # single-token pools (long = short = index token) exist in GMX v2
    return GmxV2Market(MarketInfo(name, MarketTypeEnum.gmx_v2), GmxV2Pool(V2_LONG, short, V2_INDEX_SYNTH if synthetic else V2_LONG), data=df)


def v2_prices(df, market):
    p = market.get_price_from_data()  # repository code
    p = p.map(lambda y: Decimal(str(y)))
    p["USD"] = Decimal(1)
    return p


POS_F, NEG_F, EXP = 2e-10, 4e-10, 2
V2_IMPACT = {"pos": POS_F, "neg": NEG_F}  # configuration as well (set_v2_impact): the positive factor never exceeds the negative one
DEP_FEE_POS, DEP_FEE_NEG, WD_FEE = 0.0005, 0.0007, 0.0007
V2_FEES = {"dep_pos": DEP_FEE_POS, "dep_neg": DEP_FEE_NEG, "wd": WD_FEE}  # the pool's fee factors are configuration: a check may set others (market and reference alike)


def set_v2_impact(market=None, pos=POS_F, neg=NEG_F):
    V2_IMPACT.update(pos=pos, neg=neg)
    if market is not None:
        market.pool_config.swapImpactFactorPositive, market.pool_config.swapImpactFactorNegative = pos, neg


def set_v2_fees(market=None, dep_pos=DEP_FEE_POS, dep_neg=DEP_FEE_NEG, wd_pos=0.0005, wd_neg=WD_FEE):
    V2_FEES.update(dep_pos=dep_pos, dep_neg=dep_neg, wd=wd_neg)
    if market is not None:
        c = market.pool_config
        c.depositFeeFactorForPositiveImpact, c.depositFeeFactorForNegativeImpact = dep_pos, dep_neg
        c.withdrawFeeFactorForPositiveImpact, c.withdrawFeeFactorForNegativeImpact = wd_pos, wd_neg


def v2_impact(row, long_usd, short_usd):
    """Price impact in USD of a deposit (reference; floats like the code under test, formula from SwapPricingUtils.sol)."""
    def impact(pa, pb):
        na, nb = pa + long_usd, pb + short_usd
        i, nx = abs(pa - pb), abs(na - nb)
        same = (pa <= pb) == (na <= nb)
        pos_f = min(V2_IMPACT["pos"], V2_IMPACT["neg"])
        NEG = V2_IMPACT["neg"]
        if same:
            positive = nx < i
            f = pos_f if positive else NEG
            d = abs(i**EXP * f - nx**EXP * f)
            return d if positive else -d
        p, q = i**EXP * pos_f, nx**EXP * NEG
        d = abs(p - q)
        return d if p > q else -d
    v = impact(row["longAmount"] * row["longPrice"], row["shortAmount"] * row["shortPrice"])
    if v >= 0:
        return v
    vv = impact(row["virtualSwapInventoryLong"] * row["longPrice"], row["virtualSwapInventoryShort"] * row["shortPrice"])
    return min(v, vv)


def v2_mint(row, long_amt, short_amt):
    """(gm minted, positive impact value actually granted in USD)."""
    lv, sv = long_amt * row["longPrice"], short_amt * row["shortPrice"]
    if lv + sv == 0:
        return 0.0, 0.0
    imp = v2_impact(row, lv, sv)
    per_share = row["poolValue"] / row["marketTokensSupply"]
    gm = 0.0
    granted = 0.0
    for amt, val, p_in, p_out in ((long_amt, lv, row["longPrice"], row["shortPrice"]), (short_amt, sv, row["shortPrice"], row["longPrice"])):
        if amt <= 0:
            continue
        share = imp * val / (lv + sv)
        fee = amt * (V2_FEES["dep_pos"] if share > 0 else V2_FEES["dep_neg"])
        after = amt - fee
        if share > 0:
            pos_amt = min(share / p_out, row["impactPoolAmount"])
            gm += pos_amt * p_out / per_share
            granted += pos_amt * p_out
        elif share < 0:
            after -= -share / p_in
        gm += after * p_in / per_share
    return gm, granted


def v2_redeem(row, gm):
    usd = gm * row["poolValue"] / row["marketTokensSupply"]
    lu, su = row["longAmount"] * row["longPrice"], row["shortAmount"] * row["shortPrice"]
    long_out = usd * lu / (lu + su) / row["longPrice"] * (1 - V2_FEES["wd"])
    short_out = usd * su / (lu + su) / row["shortPrice"] * (1 - V2_FEES["wd"])
    return long_out, short_out


class Gmx2Adapter:
    kind = "gmx2"

    def __init__(self, market, data):
        self.market = market
        self.data = data
        self.ctx = None
        self.long, self.short = market.long_token, market.short_token

    def raw(self):
        return {"gm": self.market.amount}

    def negatives(self):
        return ["gm"] if self.market.amount < 0 else []

    def row(self):
        return self.data.loc[self.ctx.index[self.ctx.bar]]

    def ref_value(self) -> Fraction:
        r = self.row()
        return F(float(self.market.amount)) * F(float(r["poolValue"])) / F(float(r["marketTokensSupply"]))

    def allowed_gain(self, ctx, op):
        """Positive price impact granted by the protocol on the deposit this op would make (documented weakening)."""
        args = op.meta.get("deposit_args")
        if args is None:
            return Fraction(0)
        la, sa = args(ctx)
        _, granted = v2_mint(self.row(), float(la), float(sa))
        return F(granted) * (1 + Fraction(1, 10**6)) + Fraction(1, 10**6)

    def ops(self, ctx):
        m = self.market
        n = m.market_info.name
        out = []
        bal = lambda t: ctx.broker.get_token_balance(t) if t in ctx.broker.assets else Decimal(0)
        for lc, sc in (("part", "part"), ("part", "0"), ("0", "part"), ("all", "all"), ("over", "part"), ("part", "over"), ("0", "0"),
                       ("dust", "dust"), ("all", "part"), ("part", "all")):
            def args(c, lc=lc, sc=sc):
                return amount(lc, bal(self.long)), amount(sc, bal(self.short))
            out.append(Op(f"{n}.deposit[{lc},{sc}]", lambda c, args=args: m.deposit(*args(c)), (lc, sc) not in (("part", "part"), ("part", "0"), ("0", "part")),
                          f"{n}.deposit", {"deposit_args": args}))
        for cls in ("part", "None", "all", "over", "0"):
            out.append(Op(f"{n}.withdraw[{cls}]", lambda c, cls=cls: m.withdraw(None if cls == "None" else float(amount(cls, Decimal(str(m.amount))))),
                          cls not in ("part",), f"{n}.withdraw"))
        return out
