"""World catalogue: each entry builds fresh real objects on shared read-only synthetic frames."""
from __future__ import annotations

from decimal import Decimal

import pandas as pd

from demeter import MarketInfo, MarketTypeEnum, TokenInfo
from demeter._typing import USD
from demeter.uniswap.helper import get_price_from_data, tick_to_base_unit_price

from . import uni
from .adapters_uni import UniAdapter
from .base import T0, minutes
from .kit import Ctx


RAW_HOOK = [None]  # C02 varies the FUTURE of the raw input frames: hook(name, frame) -> frame, applied where a raw input frame is created,
#                    before any of the repository's preparation code (statistic columns, price extraction) sees it


def _raw(name, df):
    return RAW_HOOK[0](name, df) if RAW_HOOK[0] is not None else df


AUTO_BEGIN = [True]  # the actuator driver (actdrv.py) switches this off: there the real Actuator.run positions the markets


def _begin(ctx, bar):
    if AUTO_BEGIN[0]:
        ctx.begin_bar(bar)


class World:
    """name, build() -> Ctx positioned at the frozen bar, alphabet(ctx) -> [Op], roots (seeded portfolios as label prefixes)."""

    def __init__(self, name, build, roots=((),), frames=None):
        self.name = name
        self.build = build
        self.roots = roots
        self.frames = frames or {}

    def alphabet(self, ctx):
        out = []
        for a in ctx.adapters:
            out += a.ops(ctx)
        if getattr(self, "wallet_ops", False):
            out += wallet_ops(ctx)
        if getattr(self, "extra_ops", None):
            out += self.extra_ops(ctx)
        return out


def wallet_ops(ctx):
    """Operations of the wallet itself (Broker.swap_by_from / swap_by_to between the first two wallet tokens, at the bar's prices)."""
    from .kit import Op

    toks = [t for t in ctx.broker.assets.keys()][:2]
    if len(toks) < 2:
        return []
    a, b = toks
    bal = lambda t: ctx.broker.get_token_balance(t)
    out = []
    for fn in ("swap_by_from", "swap_by_to"):
        for cls in ("part", "over", "float", "0"):
            def call(c, fn=fn, cls=cls):
                row = c.price_row()
                have = bal(a) if fn == "swap_by_from" else bal(a) * row[a.name] / row[b.name]
                amt = {"part": have / 7, "over": have * 3, "float": float(have) / 7, "0": Decimal(0)}[cls]
                return getattr(c.broker, fn)(a, b, amt, row)
            out.append(Op(f"wallet.{fn}[{a.name}->{b.name},{cls}]", call, cls != "part" or fn == "swap_by_to", f"wallet.{fn}"))

        def no_price(c, fn=fn):
            # the other token has no price in this bar: the swap can not be priced and nothing may move
            return getattr(c.broker, fn)(a, TokenInfo("NOPRICE", 18), bal(a) / 7, c.price_row())
        out.append(Op(f"wallet.{fn}[{a.name}->NOPRICE]", no_price, True, f"wallet.{fn}"))
    return out


def _decimal_prices(df):
    df = df.map(lambda y: Decimal(str(y)) if not isinstance(y, Decimal) else y)
    df[USD.name] = Decimal(1)
    return df


# ---------------------------------------------------------------------------------------------------------
def uni_world(orient="q0", frozen_bar=1, closes=(200000, 200013, 199991), fee_vol=(5 * 10**9, 2 * 10**18), late_price=False):
    if orient == "q0":
        pool = uni.pool_q0()
        ticks = list(closes)
        # edge-lo / edge-hi: ranges one of whose bounds is EXACTLY the price tick of bars 0 and 1 (the previous close lands on a range bound)
        ranges = {"in": (199500, 200500), "lo": (198000, 199000), "hi": (201000, 202000), "edge-lo": (closes[0], closes[0] + 500), "edge-hi": (closes[0] - 500, closes[0])}
        in0, in1 = fee_vol
    else:
        pool = uni.pool_q1()
        ticks = [-t for t in closes]
        ranges = {"in": (-200500, -199500), "lo": (-199000, -198000), "hi": (-202000, -201000), "edge-lo": (-closes[0] - 500, -closes[0]), "edge-hi": (-closes[0], -closes[0] + 500)}
        in1, in0 = fee_vol
    raw = _raw("uni.raw", uni.raw_frame(ticks, in0, in1, 4 * 10**16, open_tick=ticks[0]))
    data = uni.prepared(raw, pool)
    price_df, quote = get_price_from_data(data, pool)
    prices = _decimal_prices(price_df)
    if late_price:
        # the price table also quotes a token that was listed two bars into the history (nobody holds it): no price before that
        lp = [Decimal("nan")] * 2 + [Decimal(5 + i) for i in range(len(prices.index) - 2)]
        prices.insert(0, "LATE", lp)
        prices = _raw("prices.raw", prices)

    def build():
        m = uni.make_market(pool, data, "uni")
        ctx = Ctx(f"uni({orient})", prices, quote, [UniAdapter(m, ranges)], [(uni.USDC, 10000), (uni.WETH, 5)], data.index)
        _begin(ctx, frozen_bar)
        return ctx

    roots = (
        (),
        ("uni.add[in,part,part]",),
        ("uni.add[in,part,part]", "uni.add[hi,part,part]"),
        ("uni.add[in,part,part]", "uni.remove[p0,part,keep]"),
        ("uni.sell[all]",),
        ("uni.buy[all]",),
    )
    w = World(f"uni({orient})", build, roots, {"uni.data": data, "prices": prices})
    w.wallet_ops = orient == "q0"  # the wallet's own swaps are explored once, beside the pool quoted in token0 (and beside the lending market)
    if late_price:
        # the strategy buys the late-listed token once it has a price: a token no market of the account knows, entering the wallet in mid-run
        def extra(ctx):
            from .kit import Op

            late = TokenInfo("LATE", 18)

            def call(c):
                row = c.price_row()
                if not Decimal(row["LATE"]).is_finite():
                    raise ValueError("LATE has no price yet (the strategy does not trade it before its listing)")
                return c.broker.swap_by_from(uni.USDC, late, c.broker.get_token_balance(uni.USDC) / 9, row)
            return [Op("wallet.swap_by_from[USDC->LATE,part]", call, False, "wallet.swap_by_from")]
        w.extra_ops = extra
    return w


def uni_xq_world(frozen_bar=1):
    """Pool WBTC(8)/WETH(18) quoted in WETH; ACCOUNT quoted in USD via an external price frame."""
    wbtc, weth = uni.WBTC, uni.WETH
    from demeter.uniswap import UniV3Pool

    pool = UniV3Pool(wbtc, weth, 0.3, weth)  # token1 is quote; tick ~ ln(15e10)/ln(1.0001) for 15 WETH per WBTC
    t = 257400  # multiple of 60
    raw = uni.raw_frame([t, t + 60, t - 120], 3 * 10**7, 4 * 10**18, 9 * 10**15, open_tick=t)
    data = uni.prepared(raw, pool)
    eth_usd = [Decimal(2000), Decimal(2100), Decimal(1900)]
    prices = pd.DataFrame(index=data.index, data={
        "WETH": eth_usd,
        "WBTC": [data["price"].iloc[i] * eth_usd[i] for i in range(3)],
    })
    prices = _decimal_prices(prices)
    ranges = {"in": (t - 1200, t + 1200), "lo": (t - 6000, t - 3000), "hi": (t + 3000, t + 6000)}

    def build():
        m = uni.make_market(pool, data, "uni")
        ctx = Ctx("uni(xq)", prices, USD, [UniAdapter(m, ranges)], [(wbtc, 2), (weth, 30)], data.index)
        _begin(ctx, frozen_bar)
        return ctx

    roots = ((), ("uni.add[in,part,part]",), ("uni.add[in,part,part]", "uni.add[lo,part,part]"))
    return World("uni(xq)", build, roots, {"uni.data": data, "prices": prices})


# ---------------------------------------------------------------------------------------------------------
def aave_world(frozen_bar=1, n=4):
    from . import aave

    frames = {k: _raw(f"aave.{k}", v) for k, v in aave.make_data(n).items()}
    prices = _raw("prices.raw", aave.price_frame(n))

    def build():
        m = aave.make_market(frames)
        ctx = Ctx("aave", prices, USD, [aave.AaveAdapter(m, frames)],
                  [(aave.WETH, 10), (aave.USDC, 20000), (aave.DAI, 5000), (aave.USDT, 8000), (aave.AAVE, 50), (aave.WBTC, 1)],
                  prices.index)
        _begin(ctx, frozen_bar)
        return ctx

    roots = (
        (),
        ("aave.supply[WETH,part,C]",),
        ("aave.supply[WETH,part,C]", "aave.borrow[USDC,third]"),
        ("aave.supply[WETH,part,C]", "aave.supply[USDC,part,C]", "aave.borrow[DAI,third]"),
        ("aave.supply[USDT,part,N]", "aave.supply[WETH,part,C]", "aave.borrow[USDC,near]"),
        ("aave.supply[WBTC,part,C]", "aave.supply[USDC,small,C]", "aave.borrow[WETH,third]"),
    )
    fr = {f"aave.{k}": v for k, v in frames.items()}
    fr["prices"] = prices
    w = World("aave", build, roots, fr)
    w.wallet_ops = True
    return w


# ---------------------------------------------------------------------------------------------------------
def squeeth_world(kind="eq", frozen_bar=8, n=10, with_osqth=True):
    from . import squeeth as sq

    udata, sdata, prices = sq.make_frames(kind, n, hook=_raw)
    name = f"squeeth({kind})" if with_osqth else f"squeeth({kind},no-osqth-entry)"
    ranges = {"in": (sq.TICK0 - 1200, sq.TICK0 + 1200), "lo": (sq.TICK0 - 6000, sq.TICK0 - 3000), "hi": (sq.TICK0 + 3000, sq.TICK0 + 6000)}

    def build():
        um, sm = sq.make_markets(udata, sdata)
        ua = sq.SlimUniAdapter(um, ranges)
        sa = sq.SqueethAdapter(sm, ua, sdata)
        # without an oSQTH wallet entry a mint CREATES the entry: a rejected mint must not leave it behind
        ctx = Ctx(name, prices, USD, [ua, sa], [(sq.WETH, 20), (sq.OSQTH, 50)] if with_osqth else [(sq.WETH, 20)], sdata.index)
        _begin(ctx, frozen_bar)
        return ctx

    roots = (
        (),
        ("squeeth.open_deposit_mint[new,one,half,nolp]",),
        ("squeeth.open_deposit_mint[new,one,near,nolp]",),
        ("squni.add[in,part,part]",),
        ("squni.add[in,part,part]", "squeeth.open_deposit_mint[new,one,half,lp]"),
    )
    if not with_osqth:
        roots = ((), ("squeeth.open_deposit_mint[new,one,half,nolp]",))
    w = World(name, build, roots, {"squni.data": udata, "squeeth.data": sdata, "prices": prices})
    w.allowed_gain = lambda ctx, op: sq.allowed_gain(w, ctx, op)
    return w


# ---------------------------------------------------------------------------------------------------------
def deribit_world(frozen_bar=1, cut_from=None):
    from . import deribit as db

    if cut_from:
        # the history is the first three hours of a LONGER download, cut with .loc (the frame's index still lists the later hours among its unused
        # level values), and the price table covers the whole download
        longer = db.std_frame(cut_from)
        data = _raw("deribit.raw", longer.loc[:longer.index.get_level_values(0).unique()[2]])
        prices = db.price_frame(longer)
    else:
        data = _raw("deribit.raw", db.std_frame(3))
        prices = db.price_frame(data)
    index = data.index.get_level_values(0).unique()

    def build():
        m = db.make_market(data)
        ctx = Ctx("deribit", prices, USD, [db.DeribitAdapter(m, data)], [(db.ETH, 4)], index)
        _begin(ctx, frozen_bar)
        return ctx

    roots = (
        (),
        ("deribit.deposit[part]",),
        ("deribit.deposit[part]", "deribit.buy[C1,2,market]"),
        ("deribit.deposit[dust]",),
        ("deribit.deposit[part]", "deribit.buy[C1,6,market]", "deribit.buy[P1,1,market]"),
    )
    return World("deribit", build, roots, {"deribit.data": data, "prices": prices})


# ---------------------------------------------------------------------------------------------------------
def gmx1_world(frozen_bar=1, usdg_class=None, n=3):
    from . import gmx

    frame = gmx.v1_frame(n, usdg_class)
    frame["link_usdg"] = [float("nan")] + [10**24] * (n - 1)  # a token that joined the basket after the history begins: an empty cell in the supplied frame
    data = _raw("gmx1.raw", frame)
    prices = gmx.v1_prices(data)

    def build():
        m = gmx.make_v1(data)
        ctx = Ctx("gmx1", prices, USD, [gmx.Gmx1Adapter(m, data)], [(gmx.WETH, 3), (gmx.WAVAX, 200), (gmx.USDC, 5000)], data.index)
        _begin(ctx, frozen_bar)
        return ctx

    roots = ((), ("gmx1.buy_glp[WETH,part]",), ("gmx1.buy_glp[WETH,part]", "gmx1.buy_glp[WAVAX,part]"))
    return World("gmx1", build, roots, {"gmx1.data": data, "prices": prices})


def gmx2_world(frozen_bar=1, kind="mild", impact="small", n=3, single_token=False, synthetic=False, long_only_wallet=False):
    from . import gmx

    data = _raw("gmx2.raw", gmx.v2_frame(n, kind, impact, single_token, synthetic))
    if single_token:
        # one token on both sides: a deposit can be covered side by side and still not in sum
        prices = pd.DataFrame(index=data.index, data={"WETH": [Decimal(str(x)) for x in data["longPrice"]]})
        prices["USD"] = Decimal(1)
    else:
        prices = gmx.v2_prices(data, gmx.make_v2(data, synthetic=synthetic))
    wname = f"gmx2({kind},{impact})" if not single_token else f"gmx2({kind},{impact},single-token)"
    if synthetic:
        wname = f"gmx2({kind},{impact},synthetic-index)"
    if long_only_wallet:
        # the market is driven without an Actuator (whose check_market would register missing tokens with 0): the short token has no wallet entry at all
        wname = f"gmx2({kind},{impact},no-short-token-entry)"
    funds = [(gmx.V2_LONG, 4), (gmx.V2_SHORT, 9000)] if not single_token else [(gmx.V2_LONG, 8)]
    if long_only_wallet:
        funds = funds[:1]

    def build():
        m = gmx.make_v2(data, single_token=single_token, synthetic=synthetic)
        ctx = Ctx(wname, prices, USD, [gmx.Gmx2Adapter(m, data)], funds, data.index)
        _begin(ctx, frozen_bar)
        return ctx

    roots = ((), ("gmx2.deposit[part,part]",), ("gmx2.deposit[part,0]", "gmx2.deposit[0,part]")) if not long_only_wallet else ((),)
    w = World(wname, build, roots, {"gmx2.data": data, "prices": prices})
    w.allowed_gain = lambda ctx, op: ctx.adapters[0].allowed_gain(ctx, op)
    return w


# ---------------------------------------------------------------------------------------------------------
def aave_path_world(n=5, late_token=None):
    """Aave with moving prices (a liquidating bar) and per-token index growth: for the bar-by-bar properties (C01, C02, C05)."""
    from . import aave

    frames = {k: _raw(f"aave.{k}", v) for k, v in aave.make_data(n).items()}
    if late_token:
        # a token that was listed later: its history starts two bars after the others' (nothing is known about it before)
        frames[late_token] = frames[late_token].iloc[2:]
    prices = _raw("prices.raw", aave.price_frame(n, {"WETH": [1, "1.01", "0.58", "0.6", "0.9"][:n], "DAI": [1, "1.002", 1, "0.998", 1][:n],
                                  "WBTC": [1, "0.97", "1.04", 1, 1][:n]}))

    def build():
        m = aave.make_market(frames)
        ctx = Ctx("aave(path)", prices, USD, [aave.AaveAdapter(m, frames)],
                  [(aave.WETH, 10), (aave.USDC, 20000), (aave.DAI, 5000), (aave.USDT, 8000), (aave.AAVE, 50), (aave.WBTC, 1)], prices.index)
        _begin(ctx, 0)
        return ctx

    roots = ((), ("aave.supply[WETH,part,C]", "aave.borrow[USDC,near]"), ("aave.supply[WETH,part,C]", "aave.supply[USDC,part,C]", "aave.borrow[DAI,third]"),
             ("aave.supply[USDT,part,N]", "aave.supply[WETH,part,C]", "aave.borrow[USDC,near]"))
    fr = {f"aave.{k}": v for k, v in frames.items()}
    fr["prices"] = prices
    return World("aave(path)" if not late_token else "aave(path,late-listing)", build, roots, fr)


def uni_aave_world(n=4):
    """Two markets in one account: a USDC/WETH pool quoted in USDC and Aave; account quoted in USD (the pool's quote differs from the account's)."""
    from . import aave

    pool = uni.pool_q0()
    ticks = [200000, 200013, 199400, 199991][:n]
    raw = _raw("uni.raw", uni.raw_frame(ticks, 5 * 10**9, 2 * 10**18, 4 * 10**16, open_tick=ticks[0]))
    data = uni.prepared(raw, pool)
    price_df, quote = get_price_from_data(data, pool)
    frames = {k: _raw(f"aave.{k}", v) for k, v in aave.make_data(n).items()}
    prices = aave.price_frame(n, {"DAI": [1, "1.002", 1, "0.998"][:n]})
    usdc_usd = [Decimal("1"), Decimal("0.999"), Decimal("1.001"), Decimal("1")][:n]
    prices["USDC"] = usdc_usd
    prices = _raw("prices.raw", prices)
    n = len(data.index)
    up = _decimal_prices(price_df)
    prices = prices.loc[data.index[0]:data.index[-1]].copy()
    prices["WETH"] = [up["WETH"].iloc[i] * prices["USDC"].iloc[i] for i in range(n)]  # consistent: WETH/USD = WETH/USDC x USDC/USD
    ranges = {"in": (199500, 200500), "lo": (198000, 199000), "hi": (201000, 202000)}

    def build():
        m = uni.make_market(pool, data, "uni")
        am = aave.make_market(frames)
        ctx = Ctx("uni+aave", prices, USD, [UniAdapter(m, ranges), aave.AaveAdapter(am, frames)],
                  [(uni.USDC, 30000), (uni.WETH, 15), (aave.DAI, 5000), (aave.USDT, 8000), (aave.AAVE, 50), (aave.WBTC, 1)], data.index)
        _begin(ctx, 1)
        return ctx

    roots = ((), ("uni.add[in,part,part]", "aave.supply[WETH,part,C]", "aave.borrow[USDC,third]"),
             ("aave.supply[WETH,part,C]", "aave.borrow[DAI,near]", "uni.add[lo,part,part]"))
    fr = {f"aave.{k}": v for k, v in frames.items()}
    fr["prices"] = prices
    fr["uni.data"] = data
    return World("uni+aave", build, roots, fr)


def deribit_uni_world(hours=3, frozen_bar=0, extra_instruments=0, drop_hours=()):
    """Hourly option market beside a minutely pool: bars are minutes, the option market is open on the hour only."""
    from . import deribit as db

    pool = uni.pool_q0()
    n = (hours - 1) * 60 + 1
    ticks = [200000 + (13 * i) % 40 - 20 for i in range(n)]
    raw = _raw("uni.raw", uni.raw_frame(ticks, 5 * 10**8, 2 * 10**17, 4 * 10**16, open_tick=ticks[0]))
    data = uni.prepared(raw, pool)
    price_df, quote = get_price_from_data(data, pool)
    books = dict(db.STD_BOOKS)
    for i in range(extra_instruments):  # a realistic option chain has far more rows per hour than the co-market has minutes
        books[f"X{i:02d}"] = dict(kind="CALL", strike=3000 + 10 * i, mark=0.01, asks=[[0.0105, 1]], bids=[], fixed=True)
    oframe = db.std_frame(hours, books=books)
    if drop_hours:
        # hours the collector missed: no book at all for them, inside the history
        t = oframe.index.get_level_values(0)
        oframe = oframe.loc[~t.isin([t.min() + pd.Timedelta(hours=h) for h in drop_hours])]
    odata = _raw("deribit.raw", oframe)
    prices = db.price_frame(odata).loc[data.index[0]:data.index[-1]].copy()
    up = _decimal_prices(price_df)
    prices["WETH"] = up["WETH"]
    prices["USDC"] = Decimal(1)
    ranges = {"in": (199500, 200500), "lo": (198000, 199000), "hi": (201000, 202000)}

    def build():
        m = uni.make_market(pool, data, "uni")
        om = db.make_market(odata)
        ctx = Ctx(name, prices, USD, [UniAdapter(m, ranges), db.DeribitAdapter(om, odata)], [(uni.USDC, 10000), (uni.WETH, 5), (db.ETH, 4)],
                  data.index)
        _begin(ctx, frozen_bar)
        return ctx

    name = ("deribit+uni" if not extra_instruments else "deribit(many)+uni") if frozen_bar % 60 == 0 else "deribit+uni(closed)"
    if drop_hours:
        name = "deribit(gap)+uni"
    roots = ((), ("deribit.deposit[part]", "deribit.buy[C1,2,market]"), ("uni.add[in,part,part]", "deribit.deposit[part]", "deribit.buy[P1,1,market]"))
    if frozen_bar % 60 != 0:
        roots = ((), ("deribit.deposit[part]",))  # frozen between two hours: the option market is closed, every write must be refused and change nothing
    return World(name, build, roots, {"uni.data": data, "deribit.data": odata, "prices": prices})
