"""Shared run context for every check: tiers, seeds, violation collection, known-findings matching,
replay artefacts, evidence writing.  Nothing here knows about demeter."""
from __future__ import annotations

import contextlib
import hashlib
import io
import json
import os
import sys
import time
from decimal import Decimal
from fractions import Fraction

VERIF = os.path.dirname(os.path.dirname(os.path.dirname(os.path.abspath(__file__))))
# the two overrides exist so that runs against a scratch copy of the library (seeded/seedtool.py) do not clobber the real evidence
EVIDENCE_DIR = os.environ.get("VERIF_EVIDENCE_DIR") or os.path.join(VERIF, "evidence")
REPLAY_DIR = os.environ.get("VERIF_REPLAY_DIR") or os.path.join(VERIF, "replays")
FINDINGS_FILE = os.path.join(VERIF, "known_findings.json")


def jsonable(x):
    """Turn harness values into plain JSON (Decimal/Fraction -> str, tuples -> lists ...)."""
    import datetime as _dt

    if isinstance(x, (str, int, bool)) or x is None:
        return x
    if isinstance(x, float):
        return x if x == x and x not in (float("inf"), float("-inf")) else repr(x)
    if isinstance(x, (Decimal, Fraction)):
        return str(x)
    if isinstance(x, dict):
        return {str(k): jsonable(v) for k, v in x.items()}
    if isinstance(x, (list, tuple, set, frozenset)):
        return [jsonable(v) for v in (sorted(x, key=repr) if isinstance(x, (set, frozenset)) else x)]
    if isinstance(x, (_dt.datetime, _dt.date)):
        return x.isoformat()
    try:
        import numpy as np

        if isinstance(x, np.integer):
            return int(x)
        if isinstance(x, np.floating):
            return float(x)
    except Exception:  # pragma: no cover
        pass
    return repr(x)


class Violation:
    __slots__ = ("signature", "what", "case", "detail")

    def __init__(self, signature: str, what: str, case, detail=None):
        self.signature = signature
        self.what = what
        self.case = case
        self.detail = detail


class Run:
    """One execution of one check (one property, one tier)."""

    def __init__(self, property_id: str, level: str, argv=None):
        self.pid = property_id
        self.level = level
        argv = list(sys.argv[1:] if argv is None else argv)
        self.tier = os.environ.get("VERIF_TIER", "quick")
        self.replay_path = None
        self.verbose = False
        i = 0
        while i < len(argv):
            a = argv[i]
            if a == "--tier":
                self.tier = argv[i + 1]
                i += 1
            elif a == "--replay":
                self.replay_path = argv[i + 1]
                i += 1
            elif a == "-v":
                self.verbose = True
            i += 1
        if self.tier not in ("quick", "thorough"):
            self.tier = "quick"
        try:
            self.seed = int(os.environ.get("VERIF_SEED", "0"))
        except ValueError:
            self.seed = 0
        self.t0 = time.time()
        self.violations: dict[str, Violation] = {}
        self.violation_counts: dict[str, int] = {}
        self.counters: dict[str, int] = {}
        self.coverage: dict = {}
        self.assumptions: list[str] = []
        self.samples: list = []
        self.exhaustive = True
        self.notes: list[str] = []

    # -- bookkeeping -------------------------------------------------------------------------
    @property
    def thorough(self) -> bool:
        return self.tier == "thorough"

    def pick(self, quick, thorough):
        return thorough if self.thorough else quick

    def count(self, key: str, n: int = 1):
        self.counters[key] = self.counters.get(key, 0) + n

    def rotate(self, seq):
        """Seed only rotates the order in which a fixed alphabet is walked; the set never changes."""
        seq = list(seq)
        if not seq:
            return seq
        k = self.seed % len(seq)
        return seq[k:] + seq[:k]

    def sample(self, case, every: int = 1, cap: int = 6):
        """Keep a few actually explored cases for the evidence file (seed rotates which ones)."""
        n = self.counters.get("_sample_seen", 0)
        self.counters["_sample_seen"] = n + 1
        if len(self.samples) < cap and (n + self.seed) % max(every, 1) == 0:
            self.samples.append(jsonable(case))

    def violation(self, signature: str, what: str, case, detail=None):
        self.violation_counts[signature] = self.violation_counts.get(signature, 0) + 1
        if signature not in self.violations:
            self.violations[signature] = Violation(signature, what, jsonable(case), jsonable(detail))

    def merge(self, part: dict):
        """Merge a worker's partial result (dict produced by Part.result())."""
        for k, v in part.get("counters", {}).items():
            self.count(k, v)
        for sig, (what, case, detail, n) in part.get("violations", {}).items():
            self.violation_counts[sig] = self.violation_counts.get(sig, 0) + n
            if sig not in self.violations:
                self.violations[sig] = Violation(sig, what, case, detail)
        for s in part.get("samples", []):
            if len(self.samples) < 8:
                self.samples.append(s)
        if not part.get("exhaustive", True):
            self.exhaustive = False

    # -- finishing ---------------------------------------------------------------------------
    def _known(self):
        try:
            with open(FINDINGS_FILE) as f:
                data = json.load(f)
        except FileNotFoundError:
            return []
        return [e for e in data.get("findings", []) if e.get("property") == self.pid]

    def finish(self, coverage: dict, assumptions=None):
        known = {e["signature"]: e for e in self._known()}
        unknown = []
        known_hit = []
        for sig, v in sorted(self.violations.items()):
            if sig in known:
                known_hit.append((sig, known[sig]))
            else:
                unknown.append(v)
        for sig, e in known_hit:
            print(f"KNOWN-FINDING: property={self.pid} {e.get('what', sig)} [{sig}] x{self.violation_counts[sig]}")
        replay_paths = []
        if unknown:
            d = os.path.join(REPLAY_DIR, self.pid)
            os.makedirs(d, exist_ok=True)
            for v in unknown:
                h = hashlib.sha1(v.signature.encode()).hexdigest()[:10]
                p = os.path.join(d, f"{h}.json")
                with open(p, "w") as f:
                    json.dump(
                        {
                            "property": self.pid,
                            "signature": v.signature,
                            "what": v.what,
                            "count": self.violation_counts[v.signature],
                            "case": v.case,
                            "detail": v.detail,
                        },
                        f,
                        indent=1,
                    )
                replay_paths.append(p)
                print(f"VIOLATION property={self.pid} replay={p}")
                print(f"  signature: {v.signature}")
                print(f"  what: {v.what}  (x{self.violation_counts[v.signature]})")
        cov = dict(coverage)
        cov.setdefault("samples", self.samples[:8] or [{"note": "no sample recorded"}])
        cov.setdefault("exhaustive", bool(self.exhaustive))
        cov["counters"] = {k: v for k, v in sorted(self.counters.items()) if not k.startswith("_")}
        cov["known_findings_hit"] = [sig for sig, _ in known_hit]
        cov["violation_signatures"] = [v.signature for v in unknown]
        if self.notes:
            cov["notes"] = self.notes
        ev = {
            "property_id": self.pid,
            "tier": self.tier,
            "seed": self.seed,
            "level": self.level,
            "coverage": jsonable(cov),
            "assumptions": list(assumptions or self.assumptions),
            "library_under_test": _library_path(),
            "wall_s": round(time.time() - self.t0, 3),
            "violations": len(unknown),
        }
        os.makedirs(EVIDENCE_DIR, exist_ok=True)
        tmp = os.path.join(EVIDENCE_DIR, f".{self.pid}.json.tmp")
        with open(tmp, "w") as f:
            json.dump(ev, f, indent=1)
        os.replace(tmp, os.path.join(EVIDENCE_DIR, f"{self.pid}.json"))
        brief = {k: v for k, v in cov.items() if isinstance(v, (int, bool)) and not isinstance(v, dict)}
        print(f"{self.pid} tier={self.tier} seed={self.seed} wall={ev['wall_s']}s violations={len(unknown)} "
              f"known={len(known_hit)} {brief}")
        return 1 if unknown else 0


def _library_path():
    try:
        import demeter

        return os.path.dirname(os.path.dirname(os.path.abspath(demeter.__file__)))
    except Exception:  # pragma: no cover
        return None


class Part:
    """Worker-side collector with the same surface as Run for counting / violations; picklable result."""

    def __init__(self, seed=0):
        self.seed = seed
        self.counters = {}
        self.violations = {}
        self.samples = []
        self.exhaustive = True

    def count(self, key, n=1):
        self.counters[key] = self.counters.get(key, 0) + n

    def sample(self, case, every=1, cap=3):
        n = self.counters.get("_sample_seen", 0)
        self.counters["_sample_seen"] = n + 1
        if len(self.samples) < cap and (n + self.seed) % max(every, 1) == 0:
            self.samples.append(jsonable(case))

    def violation(self, signature, what, case, detail=None):
        if signature in self.violations:
            w, c, d, n = self.violations[signature]
            self.violations[signature] = (w, c, d, n + 1)
        else:
            self.violations[signature] = (what, jsonable(case), jsonable(detail), 1)

    def result(self):
        return {"counters": self.counters, "violations": self.violations, "samples": self.samples,
                "exhaustive": self.exhaustive}


@contextlib.contextmanager
def quiet():
    """Silence prints made by the library (actuator prints on error paths etc.)."""
    old = sys.stdout
    sys.stdout = io.StringIO()
    try:
        yield
    finally:
        sys.stdout = old


class LibraryFailure(Exception):
    """An exception that ORIGINATED inside the library under test (innermost frame in the demeter package) and that no oracle of the check caught:
    the library failed on a call that it serves on the unchanged tree. Reported as a violation of the property whose check exercised the call, not as a
    harness error (exceptions raised in harness code - e.g. a private attribute the harness relies on disappeared - stay harness errors, exit 2)."""

    def __init__(self, etype, message, where, trace):
        super().__init__(etype, message, where, trace)
        self.etype, self.message, self.where, self.trace = etype, message, where, trace


def classify_exception(e):
    """LibraryFailure if the innermost frame of e's traceback that is neither third-party nor standard-library code (pandas raising a KeyError on behalf of its
    caller, say) lies in the demeter package; None if it is harness code."""
    import traceback

    if isinstance(e, LibraryFailure):
        return e
    lib = _library_path()
    frames = traceback.extract_tb(e.__traceback__)
    if not lib or not frames:
        return None
    pkg = os.path.join(lib, "demeter") + os.sep
    harness = os.path.dirname(os.path.dirname(os.path.abspath(__file__))) + os.sep  # .../mc/
    last = None
    for fr in reversed(frames):
        fn = os.path.abspath(fr.filename)
        if fn.startswith(pkg):
            last = fr
            break
        if fn.startswith(harness):
            return None
    if last is None:
        return None
    where = f"{os.path.relpath(last.filename, lib)}:{last.name}"
    return LibraryFailure(type(e).__name__, str(e)[:300], where, "".join(traceback.format_exception(type(e), e, e.__traceback__))[-6000:])


class _Guarded:
    """Picklable wrapper: a worker classifies its own uncaught exception (the parent only gets a text traceback)."""

    def __init__(self, fn):
        self.fn = fn

    def __call__(self, x):
        try:
            return self.fn(x)
        except Exception as e:  # noqa: BLE001
            lf = classify_exception(e)
            if lf is not None:
                raise lf from None
            raise


def pmap(fn, items, workers=None, chunksize=1):
    """Deterministic parallel map over items (results in input order). fork context: workers inherit
    the imported library; every worker builds fresh worlds itself."""
    import multiprocessing as mp

    items = list(items)
    workers = workers or min(16, os.cpu_count() or 1)
    fn = _Guarded(fn)
    if workers <= 1 or len(items) <= 1 or os.environ.get("VERIF_SERIAL"):
        return [fn(x) for x in items]
    ctx = mp.get_context("fork")
    with ctx.Pool(min(workers, len(items))) as pool:
        return pool.map(fn, items, chunksize=chunksize)


def chunks(seq, n):
    seq = list(seq)
    k = max(1, (len(seq) + n - 1) // n)
    return [seq[i:i + k] for i in range(0, len(seq), k)]


def digest(obj) -> str:
    return hashlib.sha1(json.dumps(jsonable(obj), sort_keys=True).encode()).hexdigest()[:16]
