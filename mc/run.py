"""Entry point: python -m mc.run C07 [--tier quick|thorough] [--replay file]"""
import importlib
import os
import sys
import tempfile
import traceback


def main():
    if len(sys.argv) < 2:
        print("usage: check <Cxx> [--tier quick|thorough] [--replay file]")
        return 2
    pid = sys.argv[1].upper()
    for i, a in enumerate(sys.argv):
        if a == "--replay" and i + 1 < len(sys.argv):
            sys.argv[i + 1] = os.path.abspath(sys.argv[i + 1])  # before the cwd moves to a scratch directory
    # scratch cwd: the actuator writes backtest-with-error.* to ./ on RuntimeError
    scratch = tempfile.mkdtemp(prefix="verif-cwd-")
    os.chdir(scratch)
    try:
        mod = importlib.import_module(f"mc.checks.{pid.lower()}")
        from mc.engine.core import Run

        run = Run(pid, mod.LEVEL, sys.argv[2:])
        if run.replay_path:
            return mod.replay(run, run.replay_path)
        return mod.main(run)
    except SystemExit:
        raise
    except BaseException:
        traceback.print_exc()
        print(f"HARNESS-ERROR property={pid}")
        return 2
    finally:
        import shutil

        os.chdir("/")
        shutil.rmtree(scratch, ignore_errors=True)


if __name__ == "__main__":
    sys.exit(main())
