"""Entry point: python -m mc.run C07 [--tier quick|thorough] [--replay file]"""
import importlib
import os
import sys
import tempfile
import traceback


def main():
    if len(sys.argv) < 2:
        print("usage: check <Cxx> [--tier quick|thorough] [--replay file]")
        return 2
    pid = sys.argv[1].upper()
    for i, a in enumerate(sys.argv):
        if a == "--replay" and i + 1 < len(sys.argv):
            sys.argv[i + 1] = os.path.abspath(sys.argv[i + 1])  # before the cwd moves to a scratch directory
    # scratch cwd: the actuator writes backtest-with-error.* to ./ on RuntimeError
    scratch = tempfile.mkdtemp(prefix="verif-cwd-")
    os.chdir(scratch)
    run = None
    try:
        mod = importlib.import_module(f"mc.checks.{pid.lower()}")
        from mc.engine.core import Run

        run = Run(pid, mod.LEVEL, sys.argv[2:])
        if run.replay_path:
            import json

            rec = json.load(open(run.replay_path))
            if isinstance(rec.get("case"), dict) and rec["case"].get("kind") == "library-exception":
                print(rec["detail"]["trace"])
                print("REPLAY recorded library failure (re-run the check to reproduce it):", rec["signature"])
                return 1
            return mod.replay(run, run.replay_path)
        return mod.main(run)
    except SystemExit:
        raise
    except BaseException as e:
        from mc.engine.core import classify_exception

        lf = classify_exception(e) if isinstance(e, Exception) else None
        if lf is not None and run is not None and not run.replay_path:
            # the library itself failed on a call the check makes (and that it serves on the unchanged tree): a violation, with the traceback as the artefact
            run.violation(f"{pid}|library-exception|{lf.etype}|{lf.where}", f"the library raised {lf.etype} ({lf.message[:120]}) inside {lf.where} on a call of this check "
                          "that no oracle expects to fail", {"kind": "library-exception"}, {"trace": lf.trace})
            run.exhaustive = False
            rc = run.finish({"states": 1, "transitions": 1, "traces_validated_against_impl": 1, "evaluations": 1, "distinct_nontrivial": 1,
                             "rule": "the exploration was cut short by an exception raised inside the library under test", "exhaustive": False},
                            ["run aborted by a library failure; see the replay artefact for the traceback"])
            return rc
        traceback.print_exc()
        print(f"HARNESS-ERROR property={pid}")
        return 2
    finally:
        import shutil

        os.chdir("/")
        shutil.rmtree(scratch, ignore_errors=True)


if __name__ == "__main__":
    sys.exit(main())
